// Package ev records what a check covered (counters, classes, distinct
// non-trivial cases, samples), matches failures against the committed
// known-findings file, writes replay files and the per-shard partial evidence
// the driver merges.
package ev

import (
	"bufio"
	"encoding/binary"
	"encoding/json"
	"fmt"
	"hash/fnv"
	"os"
	"path/filepath"
	"sort"
	"strconv"
	"strings"
	"sync"
	"time"
)

// Failure describes a failed case. Sig is the signature compared with the
// open entries of known-findings.txt; it names format, region, call site and
// outcome, never the concrete input.
type Failure struct {
	Msg string            `json:"msg"`
	Sig map[string]string `json:"sig"`
}

func (f *Failure) Error() string { return f.Msg }

// Fail builds a Failure; kv are signature key/value pairs.
func Fail(msg string, kv ...string) *Failure {
	f := &Failure{Msg: msg, Sig: map[string]string{}}
	for i := 0; i+1 < len(kv); i += 2 {
		f.Sig[kv[i]] = kv[i+1]
	}
	return f
}

// Known is one open entry of known-findings.txt.
type Known struct {
	Property string
	ID       string
	Sig      map[string]string
	Text     string
}

// Violation is a failure that is not a known finding.
type Violation struct {
	Replay string            `json:"replay"`
	Msg    string            `json:"msg"`
	Sig    map[string]string `json:"sig"`
}

// Rec is the recorder of one shard process.
type Rec struct {
	mu          sync.Mutex
	ID          string
	Tier        string
	Seed        int64
	Shard       int
	Shards      int
	Level       string
	Rule        string
	Assumptions []string
	Exhaustive  bool
	Extra       map[string]any

	evals      int64
	bulk       int64
	distinct   map[uint64]struct{}
	classes    map[string]int64
	samples    []any
	sampleKey  map[string]int
	known      []Known
	knownHit   map[string]int64
	viol       []Violation
	start      time.Time
	root       string
	incomplete string
	lastReplay string
	digests    [][2]string
}

// Root returns the /verif directory (env VERIF_ROOT, default /verif).
func Root() string {
	if r := os.Getenv("VERIF_ROOT"); r != "" {
		return r
	}
	return "/verif"
}

// Tier returns quick or thorough.
func Tier() string {
	if os.Getenv("VERIF_TIER") == "thorough" {
		return "thorough"
	}
	return "quick"
}

// Thorough tells whether the thorough tier runs.
func Thorough() bool { return Tier() == "thorough" }

func envInt(name string, def int64) int64 {
	if v, err := strconv.ParseInt(os.Getenv(name), 10, 64); err == nil {
		return v
	}
	return def
}

// New creates the recorder for property id.
func New(id, level string) *Rec {
	r := &Rec{ID: id, Level: level, Tier: Tier(), Seed: envInt("VERIF_SEED", 1),
		Shard: int(envInt("VERIF_SHARD", 0)), Shards: int(envInt("VERIF_SHARDS", 1)),
		distinct: map[uint64]struct{}{}, classes: map[string]int64{}, sampleKey: map[string]int{},
		knownHit: map[string]int64{}, Extra: map[string]any{}, start: time.Now(), root: Root()}
	if r.Seed == 0 {
		r.Seed = 1
	}
	r.known = LoadKnown(filepath.Join(r.root, "known-findings.txt"), id)
	return r
}

// LoadKnown parses the open entries for a property.
func LoadKnown(path, id string) []Known {
	f, err := os.Open(path)
	if err != nil {
		return nil
	}
	defer f.Close()
	var res []Known
	sc := bufio.NewScanner(f)
	sc.Buffer(make([]byte, 1<<20), 1<<20)
	for sc.Scan() {
		line := strings.TrimSpace(sc.Text())
		if !strings.HasPrefix(line, "open:") {
			continue
		}
		// open: property=C05 id=C05-F1 sig={...} text
		rest := strings.TrimSpace(line[5:])
		var k Known
		for _, key := range []string{"property=", "id="} {
			if !strings.HasPrefix(rest, key) {
				break
			}
			sp := strings.IndexByte(rest, ' ')
			if sp < 0 {
				sp = len(rest)
			}
			v := rest[len(key):sp]
			if key == "property=" {
				k.Property = v
			} else {
				k.ID = v
			}
			rest = strings.TrimSpace(rest[sp:])
		}
		if !strings.HasPrefix(rest, "sig=") {
			continue
		}
		rest = rest[4:]
		end := strings.IndexByte(rest, '}')
		if end < 0 {
			continue
		}
		if json.Unmarshal([]byte(rest[:end+1]), &k.Sig) != nil {
			continue
		}
		k.Text = strings.TrimSpace(rest[end+1:])
		if k.Property == id {
			res = append(res, k)
		}
	}
	return res
}

// MatchKnown returns the open finding whose signature is contained in sig.
func (r *Rec) MatchKnown(f *Failure) *Known {
	for i := range r.known {
		k := &r.known[i]
		ok := len(k.Sig) > 0
		for key, v := range k.Sig {
			if f.Sig[key] != v {
				ok = false
				break
			}
		}
		if ok {
			return k
		}
	}
	return nil
}

// Eval counts n executed cases.
func (r *Rec) Eval(n int64) {
	r.mu.Lock()
	r.evals += n
	r.mu.Unlock()
}

// Hash64 hashes a canonical description of a case.
func Hash64(parts ...any) uint64 {
	h := fnv.New64a()
	for _, p := range parts {
		switch v := p.(type) {
		case []byte:
			var l [8]byte
			binary.LittleEndian.PutUint64(l[:], uint64(len(v)))
			h.Write(l[:])
			h.Write(v)
		case string:
			h.Write([]byte(v))
			h.Write([]byte{0})
		default:
			fmt.Fprintf(h, "%v|", v)
		}
	}
	return h.Sum64()
}

// NonTrivial registers a distinct non-trivial case by its hash.
func (r *Rec) NonTrivial(h uint64) {
	r.mu.Lock()
	r.distinct[h] = struct{}{}
	r.mu.Unlock()
}

// Bulk counts n cases that are distinct by construction (an enumeration
// visiting each point once) and non-trivial by the check's rule.
func (r *Rec) Bulk(n int64) {
	r.mu.Lock()
	r.bulk += n
	r.evals += n - 1 // the enclosing try() already counted one
	r.mu.Unlock()
}

// Class counts a class label.
func (r *Rec) Class(labels ...string) {
	r.mu.Lock()
	for _, l := range labels {
		r.classes[l]++
	}
	r.mu.Unlock()
}

// ClassN adds n to a class label.
func (r *Rec) ClassN(label string, n int64) {
	r.mu.Lock()
	r.classes[label] += n
	r.mu.Unlock()
}

// Sample keeps up to 2 samples per key and 10 in total.
func (r *Rec) Sample(key string, v any) {
	r.mu.Lock()
	defer r.mu.Unlock()
	if len(r.samples) >= 10 || r.sampleKey[key] >= 2 {
		return
	}
	r.sampleKey[key]++
	r.samples = append(r.samples, v)
}

// Incomplete marks the run as inconclusive (harness problem, budget hit).
func (r *Rec) Incomplete(why string) {
	r.mu.Lock()
	if r.incomplete == "" {
		r.incomplete = why
	}
	r.mu.Unlock()
}

// CaseDigest records a digest of the deterministic outputs of a case (only
// when VERIF_DIGESTS is set: the driver runs one shard in two processes and
// compares the lists, which catches output that differs from run to run).
func (r *Rec) CaseDigest(c any, digest string) {
	if os.Getenv("VERIF_DIGESTS") == "" {
		return
	}
	b, _ := json.Marshal(c)
	r.mu.Lock()
	r.digests = append(r.digests, [2]string{string(b), digest})
	r.mu.Unlock()
}

// TakeIncomplete returns and clears the inconclusive note (fuzz targets
// handle it per execution).
func (r *Rec) TakeIncomplete() string {
	r.mu.Lock()
	defer r.mu.Unlock()
	w := r.incomplete
	r.incomplete = ""
	return w
}

// LastReplay returns the path of the replay file written last.
func (r *Rec) LastReplay() string {
	r.mu.Lock()
	defer r.mu.Unlock()
	return r.lastReplay
}

// Report handles a failure: a known finding is counted and (false) returned;
// otherwise a replay file is written, the violation recorded and true
// returned. c is the JSON-serialisable case.
func (r *Rec) Report(c any, f *Failure) bool {
	r.mu.Lock()
	defer r.mu.Unlock()
	if k := r.MatchKnown(f); k != nil {
		r.knownHit[k.ID+" "+k.Text]++
		return false
	}
	blob, _ := json.MarshalIndent(map[string]any{"property": r.ID, "case": c, "failure": f}, "", " ")
	dir := filepath.Join(r.root, "replays", r.ID)
	os.MkdirAll(dir, 0o755)
	cb, _ := json.Marshal(c)
	path := filepath.Join(dir, fmt.Sprintf("%016x.json", Hash64(cb)))
	os.WriteFile(path, blob, 0o644)
	r.lastReplay = path
	for _, v := range r.viol {
		if v.Replay == path {
			return true
		}
	}
	if len(r.viol) < 50 {
		r.viol = append(r.viol, Violation{Replay: path, Msg: f.Msg, Sig: f.Sig})
	}
	return true
}

// IsKnown tells whether f matches an open known finding (and counts it).
func (r *Rec) IsKnown(f *Failure) bool {
	r.mu.Lock()
	defer r.mu.Unlock()
	if k := r.MatchKnown(f); k != nil {
		r.knownHit[k.ID+" "+k.Text]++
		return true
	}
	return false
}

// Violations returns the number of recorded violations.
func (r *Rec) Violations() int {
	r.mu.Lock()
	defer r.mu.Unlock()
	return len(r.viol)
}

// Partial is the per-shard file the driver merges.
type Partial struct {
	ID          string           `json:"property_id"`
	Tier        string           `json:"tier"`
	Seed        int64            `json:"seed"`
	Shard       int              `json:"shard"`
	Level       string           `json:"level"`
	Evals       int64            `json:"evaluations"`
	Distinct    []string         `json:"distinct_hashes"`
	Bulk        int64            `json:"distinct_bulk"`
	Classes     map[string]int64 `json:"classes"`
	Samples     []any            `json:"samples"`
	Rule        string           `json:"rule"`
	Assumptions []string         `json:"assumptions"`
	Exhaustive  bool             `json:"exhaustive"`
	Known       map[string]int64 `json:"known_excluded"`
	Violations  []Violation      `json:"violations"`
	Extra       map[string]any   `json:"extra"`
	WallS       float64          `json:"wall_s"`
	Incomplete  string           `json:"incomplete"`
	Done        bool             `json:"done"`
	Digests     [][2]string      `json:"digests,omitempty"`
}

// Write writes the partial evidence to VERIF_OUT.
func (r *Rec) Write() {
	r.mu.Lock()
	defer r.mu.Unlock()
	out := os.Getenv("VERIF_OUT")
	if out == "" {
		return
	}
	p := Partial{ID: r.ID, Tier: r.Tier, Seed: r.Seed, Shard: r.Shard, Level: r.Level, Evals: r.evals, Bulk: r.bulk,
		Classes: r.classes, Samples: r.samples, Rule: r.Rule, Assumptions: r.Assumptions, Exhaustive: r.Exhaustive,
		Known: r.knownHit, Violations: r.viol, Extra: r.Extra, WallS: time.Since(r.start).Seconds(),
		Incomplete: r.incomplete, Done: true, Digests: r.digests}
	hs := make([]string, 0, len(r.distinct))
	for h := range r.distinct {
		hs = append(hs, strconv.FormatUint(h, 36))
	}
	sort.Strings(hs)
	p.Distinct = hs
	b, _ := json.Marshal(p)
	os.WriteFile(out, b, 0o644)
}
