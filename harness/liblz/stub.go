//go:build !liblzma

// Package liblz: stub used when liblzma is not installed.
package liblz

import "errors"

const Available = false

var errNo = errors.New("liblz: liblzma not linked")

type Error struct{ Code int }

func (e Error) Error() string { return "liblzma error" }

type Opts struct {
	Preset     uint32
	Dict       uint32
	LC, LP, PB int
	Mode       int
	Nice       int
	MF         int
	Depth      uint32
	Check      int
	FullFlush  []int
	SyncFlush  []int
	MT         bool
	BlockSize  uint64
}

func DecodeXZ(in []byte, concatenated bool) ([]byte, error)           { return nil, errNo }
func DecodeAlone(in []byte) ([]byte, error)                           { return nil, errNo }
func DecodeRawLZMA2(in []byte, dict uint32) ([]byte, error)           { return nil, errNo }
func EncodeXZ(data []byte, o Opts) ([]byte, error)                    { return nil, errNo }
func EncodeAlone(data []byte, o Opts) ([]byte, error)                 { return nil, errNo }
func EncodeRawLZMA2(data []byte, o Opts) ([]byte, error)              { return nil, errNo }
func EncodeRawLZMA1(data []byte, o Opts, marker bool) ([]byte, error) { return nil, errNo }
func DictOf(o Opts) uint32                                            { return 0 }
func PropsOf(o Opts) (int, int, int)                                  { return 3, 0, 2 }
