//go:build liblzma

// Package liblz binds the installed liblzma (xz-utils) as a second, foreign
// judge: decoders for .xz, .lzma and raw LZMA2, and encoders with explicit
// options.
package liblz

/*
#cgo LDFLAGS: -llzma
#include <lzma.h>
#include <stdlib.h>
#include <string.h>

static lzma_ret vcode(lzma_stream *s, const uint8_t *in, size_t inlen,
                      uint8_t *out, size_t outcap, lzma_action act,
                      size_t *consumed, size_t *produced) {
	s->next_in = in; s->avail_in = inlen;
	s->next_out = out; s->avail_out = outcap;
	lzma_ret r = lzma_code(s, act);
	*consumed = inlen - s->avail_in;
	*produced = outcap - s->avail_out;
	return r;
}

static void fill_opts(lzma_options_lzma *o, uint32_t preset, uint32_t dict, int lc, int lp, int pb,
                      int mode, int nice, int mf, uint32_t depth) {
	lzma_lzma_preset(o, preset);
	if (dict) o->dict_size = dict;
	if (lc >= 0) { o->lc = lc; o->lp = lp; o->pb = pb; }
	if (mode) o->mode = mode;
	if (nice) o->nice_len = nice;
	if (mf) o->mf = mf;
	o->depth = depth;
}

static lzma_ret xz_encoder(lzma_stream *s, lzma_options_lzma *o, int check) {
	lzma_filter f[2] = {{LZMA_FILTER_LZMA2, o}, {LZMA_VLI_UNKNOWN, NULL}};
	return lzma_stream_encoder(s, f, check);
}

static lzma_ret xz_encoder_mt(lzma_stream *s, lzma_options_lzma *o, int check, uint64_t block, uint32_t threads) {
	lzma_filter f[2] = {{LZMA_FILTER_LZMA2, o}, {LZMA_VLI_UNKNOWN, NULL}};
	lzma_mt mt;
	memset(&mt, 0, sizeof mt);
	mt.threads = threads; mt.block_size = block; mt.filters = f; mt.check = check;
	return lzma_stream_encoder_mt(s, &mt);
}

static lzma_ret raw_lzma2_decoder(lzma_stream *s, lzma_options_lzma *o, uint32_t dict) {
	memset(o, 0, sizeof *o);
	o->dict_size = dict;
	lzma_filter f[2] = {{LZMA_FILTER_LZMA2, o}, {LZMA_VLI_UNKNOWN, NULL}};
	return lzma_raw_decoder(s, f);
}

static lzma_ret raw_lzma2_encoder(lzma_stream *s, lzma_options_lzma *o) {
	lzma_filter f[2] = {{LZMA_FILTER_LZMA2, o}, {LZMA_VLI_UNKNOWN, NULL}};
	return lzma_raw_encoder(s, f);
}

static lzma_ret raw_lzma1ext_encoder(lzma_stream *s, lzma_options_lzma *o, uint64_t size, int eopm) {
	o->ext_flags = eopm ? LZMA_LZMA1EXT_ALLOW_EOPM : 0;
	o->ext_size_low = (uint32_t)size;
	o->ext_size_high = (uint32_t)(size >> 32);
	lzma_filter f[2] = {{LZMA_FILTER_LZMA1EXT, o}, {LZMA_VLI_UNKNOWN, NULL}};
	return lzma_raw_encoder(s, f);
}
*/
import "C"

import (
	"fmt"
	"unsafe"
)

// Available reports that liblzma is linked in.
const Available = true

// Error is a liblzma return code other than OK / STREAM_END.
type Error struct{ Code int }

func (e Error) Error() string {
	names := map[int]string{1: "STREAM_END", 2: "NO_CHECK", 3: "UNSUPPORTED_CHECK", 4: "GET_CHECK", 5: "MEM_ERROR", 6: "MEMLIMIT_ERROR", 7: "FORMAT_ERROR", 8: "OPTIONS_ERROR", 9: "DATA_ERROR", 10: "BUF_ERROR", 11: "PROG_ERROR"}
	return fmt.Sprintf("liblzma: %s (%d)", names[e.Code], e.Code)
}

// Flush describes where the encoder is flushed.
type Opts struct {
	Preset     uint32 // 0..9, |0x80000000 for extreme
	Dict       uint32 // 0 = preset value
	LC, LP, PB int    // LC < 0: preset values
	Mode       int    // 0 preset, 1 fast, 2 normal
	Nice       int
	MF         int // 0 preset; 0x03 hc3, 0x04 hc4, 0x12 bt2, 0x13 bt3, 0x14 bt4
	Depth      uint32
	Check      int    // 0,1,4,10
	FullFlush  []int  // input offsets after which LZMA_FULL_FLUSH is issued (new block)
	SyncFlush  []int  // input offsets after which LZMA_SYNC_FLUSH is issued
	MT         bool   // multi-threaded encoder (block headers with sizes)
	BlockSize  uint64 // for MT
}

func (o Opts) fill(co *C.lzma_options_lzma) {
	lc := o.LC
	C.fill_opts(co, C.uint32_t(o.Preset), C.uint32_t(o.Dict), C.int(lc), C.int(o.LP), C.int(o.PB), C.int(o.Mode), C.int(o.Nice), C.int(o.MF), C.uint32_t(o.Depth))
}

type coder struct {
	s    *C.lzma_stream
	opts *C.lzma_options_lzma
}

func newCoder() *coder {
	c := &coder{}
	c.s = (*C.lzma_stream)(C.calloc(1, C.size_t(unsafe.Sizeof(C.lzma_stream{}))))
	c.opts = (*C.lzma_options_lzma)(C.calloc(1, C.size_t(unsafe.Sizeof(C.lzma_options_lzma{}))))
	return c
}

func (c *coder) free() {
	C.lzma_end(c.s)
	C.free(unsafe.Pointer(c.s))
	C.free(unsafe.Pointer(c.opts))
}

// run feeds `in` in pieces split at the given offsets with the given actions
// and finishes with LZMA_FINISH.
func (c *coder) run(in []byte, cuts []int, acts []C.lzma_action, limit int) ([]byte, error) {
	var out []byte
	cin := C.CBytes(in)
	defer C.free(cin)
	const bufsz = 1 << 16
	cout := C.malloc(bufsz)
	defer C.free(cout)
	pos := 0
	step := func(end int, act C.lzma_action) (bool, error) {
		for {
			var consumed, produced C.size_t
			r := C.vcode(c.s, (*C.uint8_t)(unsafe.Add(cin, pos)), C.size_t(end-pos), (*C.uint8_t)(cout), bufsz, act, &consumed, &produced)
			pos += int(consumed)
			out = append(out, C.GoBytes(cout, C.int(produced))...)
			if limit > 0 && len(out) > limit {
				return true, fmt.Errorf("liblz: output limit exceeded")
			}
			if r == C.LZMA_STREAM_END {
				return true, nil
			}
			if r != C.LZMA_OK {
				return true, Error{int(r)}
			}
			if act == C.LZMA_RUN && pos == end {
				return false, nil
			}
		}
	}
	for i, cut := range cuts {
		if cut < pos || cut > len(in) {
			continue
		}
		if cut > pos {
			if done, err := step(cut, C.LZMA_RUN); done {
				return out, err
			}
		}
		// flush action: returns STREAM_END when the flush is complete
		done, err := step(cut, acts[i])
		if err != nil {
			return out, err
		}
		_ = done
	}
	done, err := step(len(in), C.LZMA_FINISH)
	if err != nil {
		return out, err
	}
	if !done {
		return out, fmt.Errorf("liblz: not finished")
	}
	return out, nil
}

// DecodeXZ decodes .xz data. consumed tells how much input was used.
func DecodeXZ(in []byte, concatenated bool) ([]byte, error) {
	c := newCoder()
	defer c.free()
	flags := C.uint32_t(0)
	if concatenated {
		flags |= C.LZMA_CONCATENATED
	}
	if r := C.lzma_stream_decoder(c.s, C.UINT64_MAX, flags); r != C.LZMA_OK {
		return nil, Error{int(r)}
	}
	out, err := c.run(in, nil, nil, 1<<30)
	if err == nil && int(c.s.total_in) != len(in) {
		return out, fmt.Errorf("liblz: %d trailing bytes", len(in)-int(c.s.total_in))
	}
	return out, err
}

// DecodeAlone decodes a .lzma file.
func DecodeAlone(in []byte) ([]byte, error) {
	c := newCoder()
	defer c.free()
	if r := C.lzma_alone_decoder(c.s, C.UINT64_MAX); r != C.LZMA_OK {
		return nil, Error{int(r)}
	}
	out, err := c.run(in, nil, nil, 1<<30)
	if err == nil && int(c.s.total_in) != len(in) {
		return out, fmt.Errorf("liblz: %d trailing bytes", len(in)-int(c.s.total_in))
	}
	return out, err
}

// DecodeRawLZMA2 decodes a raw LZMA2 chunk sequence ending with 0x00.
func DecodeRawLZMA2(in []byte, dict uint32) ([]byte, error) {
	c := newCoder()
	defer c.free()
	if r := C.raw_lzma2_decoder(c.s, c.opts, C.uint32_t(dict)); r != C.LZMA_OK {
		return nil, Error{int(r)}
	}
	out, err := c.run(in, nil, nil, 1<<30)
	if err == nil && int(c.s.total_in) != len(in) {
		return out, fmt.Errorf("liblz: %d trailing bytes", len(in)-int(c.s.total_in))
	}
	return out, err
}

func (o Opts) cuts() ([]int, []C.lzma_action) {
	// merge FullFlush and SyncFlush sorted
	var cuts []int
	var acts []C.lzma_action
	i, j := 0, 0
	for i < len(o.FullFlush) || j < len(o.SyncFlush) {
		if j >= len(o.SyncFlush) || (i < len(o.FullFlush) && o.FullFlush[i] <= o.SyncFlush[j]) {
			cuts = append(cuts, o.FullFlush[i])
			acts = append(acts, C.LZMA_FULL_FLUSH)
			i++
		} else {
			cuts = append(cuts, o.SyncFlush[j])
			acts = append(acts, C.LZMA_SYNC_FLUSH)
			j++
		}
	}
	return cuts, acts
}

// EncodeXZ encodes data to .xz.
func EncodeXZ(data []byte, o Opts) ([]byte, error) {
	c := newCoder()
	defer c.free()
	o.fill(c.opts)
	var r C.lzma_ret
	if o.MT {
		r = C.xz_encoder_mt(c.s, c.opts, C.int(o.Check), C.uint64_t(o.BlockSize), 2)
	} else {
		r = C.xz_encoder(c.s, c.opts, C.int(o.Check))
	}
	if r != C.LZMA_OK {
		return nil, Error{int(r)}
	}
	cuts, acts := o.cuts()
	if o.MT {
		// sync flush is not supported by the MT encoder
		var c2 []int
		var a2 []C.lzma_action
		for i := range cuts {
			if acts[i] == C.LZMA_FULL_FLUSH {
				c2, a2 = append(c2, cuts[i]), append(a2, acts[i])
			}
		}
		cuts, acts = c2, a2
	}
	return c.run(data, cuts, acts, 0)
}

// EncodeAlone encodes data to .lzma (size unknown, end marker).
func EncodeAlone(data []byte, o Opts) ([]byte, error) {
	c := newCoder()
	defer c.free()
	o.fill(c.opts)
	if r := C.lzma_alone_encoder(c.s, c.opts); r != C.LZMA_OK {
		return nil, Error{int(r)}
	}
	return c.run(data, nil, nil, 0)
}

// EncodeRawLZMA2 encodes data to a raw LZMA2 stream (with end chunk).
func EncodeRawLZMA2(data []byte, o Opts) ([]byte, error) {
	c := newCoder()
	defer c.free()
	o.fill(c.opts)
	if r := C.raw_lzma2_encoder(c.s, c.opts); r != C.LZMA_OK {
		return nil, Error{int(r)}
	}
	cuts, acts := o.cuts()
	var c2 []int
	var a2 []C.lzma_action
	for i := range cuts {
		if acts[i] == C.LZMA_SYNC_FLUSH {
			c2, a2 = append(c2, cuts[i]), append(a2, acts[i])
		}
	}
	return c.run(data, c2, a2, 0)
}

// EncodeRawLZMA1 encodes data to a raw LZMA1 stream with known size, with or
// without an end marker (LZMA_FILTER_LZMA1EXT). The caller wraps it in a
// 13-byte header.
func EncodeRawLZMA1(data []byte, o Opts, marker bool) ([]byte, error) {
	c := newCoder()
	defer c.free()
	o.fill(c.opts)
	m := 0
	if marker {
		m = 1
	}
	if r := C.raw_lzma1ext_encoder(c.s, c.opts, C.uint64_t(len(data)), C.int(m)); r != C.LZMA_OK {
		return nil, Error{int(r)}
	}
	return c.run(data, nil, nil, 0)
}

// DictOf returns the dictionary size the options resolve to.
func DictOf(o Opts) uint32 {
	var co C.lzma_options_lzma
	o.fill(&co)
	return uint32(co.dict_size)
}

// PropsOf returns lc, lp, pb the options resolve to.
func PropsOf(o Opts) (int, int, int) {
	var co C.lzma_options_lzma
	o.fill(&co)
	return int(co.lc), int(co.lp), int(co.pb)
}
