//go:build liblzma

package liblz

import (
	"bytes"
	"math/rand"
	"testing"

	"verif/ref"
)

func TestCross(t *testing.T) {
	r := rand.New(rand.NewSource(1))
	for i := 0; i < 200; i++ {
		data := make([]byte, r.Intn(100000))
		k := 1 + r.Intn(6)
		for j := range data {
			data[j] = byte(r.Intn(k))
		}
		lc := r.Intn(5)
		o := Opts{Preset: uint32(r.Intn(10)), Dict: 4096 << uint(r.Intn(6)), LC: lc, LP: r.Intn(5 - lc), PB: r.Intn(5),
			Check: []int{0, 1, 4, 10}[r.Intn(4)], MF: []int{0, 3, 4, 0x12, 0x13, 0x14}[r.Intn(6)], Mode: r.Intn(3), Nice: []int{0, 2, 8, 273}[r.Intn(4)]}
		if len(data) > 10 {
			o.FullFlush = []int{r.Intn(len(data))}
			o.SyncFlush = []int{r.Intn(len(data))}
		}
		o.MT = r.Intn(4) == 0
		o.BlockSize = uint64(4096 + r.Intn(50000))
		if o.Nice == 2 && (o.MF == 0x13 || o.MF == 0x14 || o.MF == 3 || o.MF == 4 || o.MF == 0) {
			o.Nice = 0
		}
		x, err := EncodeXZ(data, o)
		if err != nil {
			t.Fatalf("case %d %+v: %v", i, o, err)
		}
		res, err := ref.DecodeXZ(x)
		if err != nil || !bytes.Equal(res.Out, data) {
			t.Fatalf("case %d: ref: %v", i, err)
		}
		back, err := DecodeXZ(x, true)
		if err != nil || !bytes.Equal(back, data) {
			t.Fatalf("case %d: lib: %v", i, err)
		}
		a, err := EncodeAlone(data, o)
		if err != nil {
			t.Fatal(err)
		}
		ar, err := ref.DecodeLZMA(a)
		if err != nil || !bytes.Equal(ar.Out, data) || !ar.Marker {
			t.Fatalf("case %d alone: %v", i, err)
		}
		marker := r.Intn(2) == 0
		raw, err := EncodeRawLZMA1(data, o, marker)
		if err != nil {
			t.Fatal(err)
		}
		hdr := append([]byte{}, a[:5]...)
		for s := 0; s < 8; s++ {
			hdr = append(hdr, byte(uint64(len(data))>>(8*uint(s))))
		}
		ar, err = ref.DecodeLZMA(append(hdr, raw...))
		if err != nil || !bytes.Equal(ar.Out, data) || ar.Marker != marker {
			t.Fatalf("case %d lzma1ext marker=%v len=%d: %v %v", i, marker, len(data), err, ar.Marker)
		}
		back, err = DecodeAlone(append(hdr, raw...))
		if err != nil || !bytes.Equal(back, data) {
			t.Fatalf("case %d lzma1ext alone dec: %v", i, err)
		}
		r2, err := EncodeRawLZMA2(data, o)
		if err != nil {
			t.Fatal(err)
		}
		rr, err := ref.DecodeLZMA2(r2, DictOf(o), true, nil, 0, 0, 0)
		if err != nil || !bytes.Equal(rr.Out, data) {
			t.Fatalf("case %d raw2: %v", i, err)
		}
		back, err = DecodeRawLZMA2(r2, DictOf(o))
		if err != nil || !bytes.Equal(back, data) {
			t.Fatalf("case %d raw2 lib: %v", i, err)
		}
	}
}
