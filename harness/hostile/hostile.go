// Package hostile holds the C11 oracle shared by the rapid check and the
// native fuzz targets: feed arbitrary bytes to a reader and watch for panics,
// n > len(p) and stalls.
package hostile

import (
	"bytes"
	"encoding/binary"
	"fmt"
	"io"
	"runtime/debug"
	"strings"

	"github.com/ulikunitz/xz"
	"github.com/ulikunitz/xz/lzma"
)

// Open opens the library reader for a format.
func Open(format string, src io.Reader, dictCap int) (io.Reader, error) {
	switch format {
	case "xz":
		return xz.ReaderConfig{DictCap: dictCap}.NewReader(src)
	case "lzma2":
		return lzma.Reader2Config{DictCap: dictCap}.NewReader2(src)
	case "lzma":
		return lzma.ReaderConfig{DictCap: dictCap}.NewReader(src)
	}
	panic("unknown format " + format)
}

// DictTooLarge is a sound over-approximation of "the input may make the
// reader allocate more than 64 MiB".
func DictTooLarge(format string, d []byte) bool {
	switch format {
	case "lzma":
		return len(d) >= 5 && binary.LittleEndian.Uint32(d[1:5]) > 64<<20
	case "xz":
		for i := 0; i+2 < len(d); i++ {
			if d[i] == 0x21 && d[i+1] == 0x01 && d[i+2] >= 29 && d[i+2] <= 40 {
				return true
			}
		}
	}
	return false
}

// Result is the outcome of Read.
type Result struct {
	Class string // outcome class (error text prefix, eof, output_cap)
	Fail  string // non-empty: violation message
	Kind  string // panic | n_out_of_range | stall
	Site  string // panic site inside the library
}

func site(stack string) string {
	for _, l := range strings.Split(stack, "\n") {
		if strings.Contains(l, "github.com/ulikunitz/xz") && !strings.HasPrefix(l, "\t") {
			if i := strings.IndexByte(l, '('); i > 0 {
				l = l[:i]
			}
			return strings.TrimPrefix(l, "github.com/ulikunitz/xz")
		}
	}
	return "harness"
}

func errClass(err error) string {
	s := err.Error()
	if len(s) > 48 {
		s = s[:48]
	}
	return s
}

// Read feeds data to the reader of the format.
func Read(format string, data []byte, readLen int, capOut int) (res Result) {
	defer func() {
		if r := recover(); r != nil {
			st := string(debug.Stack())
			res = Result{Fail: fmt.Sprintf("%s reader panicked on a %d-byte input: %v\n%s", format, len(data), r, st), Kind: "panic", Site: site(st)}
		}
	}()
	src := bytes.NewReader(data)
	r, err := Open(format, src, 4096)
	if err != nil {
		return Result{Class: "open:" + errClass(err)}
	}
	buf := make([]byte, readLen)
	total, idle := 0, 0
	for {
		before := src.Len()
		n, err := r.Read(buf)
		if n < 0 || n > len(buf) {
			return Result{Fail: fmt.Sprintf("%s reader: Read(len %d) returned n=%d", format, len(buf), n), Kind: "n_out_of_range"}
		}
		total += n
		if err == io.EOF {
			return Result{Class: "eof"}
		}
		if err != nil {
			return Result{Class: "read:" + errClass(err)}
		}
		if n == 0 && src.Len() == before {
			idle++
			if idle >= 1000 {
				return Result{Fail: fmt.Sprintf("%s reader: 1000 consecutive (0, nil) results without consuming input", format), Kind: "stall"}
			}
		} else {
			idle = 0
		}
		if total > capOut {
			return Result{Class: "output_cap"}
		}
	}
}
