package ref

import (
	"bytes"
	"io"
	"math/rand"
	"os"
	"os/exec"
	"path/filepath"
	"testing"

	"github.com/ulikunitz/xz"
	"github.com/ulikunitz/xz/lzma"
)

func randOps(r *rand.Rand, sim *LZMA2Sim, n int) []Op {
	var ops []Op
	for len(ops) < n {
		var op Op
		switch k := r.Intn(10); {
		case k < 4 || sim.Avail() == 0:
			op = Op{Kind: OpLit, Byte: byte(r.Intn(4))}
		case k < 6:
			op = Op{Kind: OpMatch, Dist: uint32(r.Intn(sim.Avail())), Len: 2 + r.Intn(20)}
			if r.Intn(5) == 0 {
				op.Dist = uint32(sim.Avail() - 1)
			}
			if r.Intn(8) == 0 {
				op.Len = 273
			}
		case k < 9:
			op = Op{Kind: OpRep, Rep: r.Intn(4), Len: 2 + r.Intn(10)}
		default:
			op = Op{Kind: OpShortRep}
		}
		if sim.Apply(op) {
			ops = append(ops, op)
		}
	}
	return ops
}

func TestSelfLZMA(t *testing.T) {
	r := rand.New(rand.NewSource(1))
	for i := 0; i < 300; i++ {
		p := Props{r.Intn(9), r.Intn(5), r.Intn(5)}
		sim := NewSim(4096)
		sim.StateReset()
		ops := randOps(r, sim, r.Intn(400))
		mode := r.Intn(3)
		df := uint32(r.Intn(8192))
		if r.Intn(2) == 0 {
			df = 4096 << uint(r.Intn(3))
		}
		s, plain, err := EncodeLZMA(p, df, ops, mode)
		if err != nil {
			t.Fatal(err)
		}
		if !bytes.Equal(plain, sim.Out()) {
			t.Fatal("sim mismatch")
		}
		res, err := DecodeLZMA(s)
		if err != nil {
			t.Fatalf("case %d mode %d: %v", i, mode, err)
		}
		if !bytes.Equal(res.Out, plain) || res.Marker != (mode != 1) {
			t.Fatalf("case %d mismatch", i)
		}
		// library reader
		lr, err := lzma.NewReader(bytes.NewReader(s))
		if err != nil {
			t.Fatal(err)
		}
		got, err := io.ReadAll(lr)
		if err != nil || !bytes.Equal(got, plain) {
			t.Logf("library: case %d mode %d len %d: err %v eq %v", i, mode, len(plain), err, bytes.Equal(got, plain))
		}
		if p.LC+p.LP <= 4 && df&(df-1) == 0 && df >= 4096 {
			cmd := exec.Command("xz", "-dc", "--format=lzma")
			cmd.Stdin = bytes.NewReader(s)
			out, err := cmd.Output()
			if err != nil || !bytes.Equal(out, plain) {
				t.Fatalf("xz-utils: case %d mode %d: %v", i, mode, err)
			}
		}
	}
}

func TestSelfXZ(t *testing.T) {
	r := rand.New(rand.NewSource(2))
	for i := 0; i < 200; i++ {
		var sp StreamSpec
		sp.Check = []byte{0, 1, 4, 10}[r.Intn(4)]
		nb := r.Intn(3)
		for b := 0; b < nb; b++ {
			bs := BlockSpec{DictCode: byte(r.Intn(4)), WithCSize: r.Intn(2) == 0, WithUSize: r.Intn(2) == 0, ExtraPad: r.Intn(3)}
			ds, _ := DictSizeForCode(bs.DictCode)
			sim := NewSim(ds)
			nc := r.Intn(5)
			needD, needP := true, true
			for c := 0; c < nc; c++ {
				var cs ChunkSpec
				for {
					cs.Kind = 1 + r.Intn(6)
					if needD && cs.Kind != CkRawD && cs.Kind != CkLRND {
						continue
					}
					if needP && (cs.Kind == CkL || cs.Kind == CkLR) {
						continue
					}
					break
				}
				switch cs.Kind {
				case CkRawD, CkRaw:
					if cs.Kind == CkRawD {
						sim.DictReset()
						needP = true
					}
					needD = false
					cs.Raw = make([]byte, 1+r.Intn(50))
					r.Read(cs.Raw)
					sim.Raw(cs.Raw)
				default:
					if cs.Kind == CkLRND {
						sim.DictReset()
					}
					needD = false
					if cs.Kind >= CkLR {
						sim.StateReset()
					}
					if cs.Kind >= CkLRN {
						lc := r.Intn(5)
						cs.Props = Props{lc, r.Intn(5 - lc), r.Intn(5)}
						needP = false
					}
					cs.Ops = randOps(r, sim, 1+r.Intn(200))
				}
				bs.Chunks = append(bs.Chunks, cs)
			}
			bs.Chunks = append(bs.Chunks, ChunkSpec{Kind: CkEnd})
			sp.Blocks = append(sp.Blocks, bs)
		}
		s, plain, err := EncodeXZ(sp)
		if err != nil {
			t.Fatal(err)
		}
		res, err := DecodeXZ(s)
		if err != nil {
			t.Fatalf("case %d: %v", i, err)
		}
		if !bytes.Equal(res.Out, plain) {
			t.Fatalf("case %d mismatch", i)
		}
		// layout contiguous
		off := 0
		for _, sp := range res.Layout.Spans {
			if sp.Off != off {
				t.Fatalf("layout gap at %d: %+v", off, sp)
			}
			off += sp.Len
		}
		if off != len(s) {
			t.Fatalf("layout ends at %d of %d", off, len(s))
		}
		xr, err := xz.NewReader(bytes.NewReader(s))
		if err != nil {
			t.Fatal(err)
		}
		got, err := io.ReadAll(xr)
		if err != nil || !bytes.Equal(got, plain) {
			t.Logf("library: case %d: err %v eq %v", i, err, bytes.Equal(got, plain))
		}
		cmd := exec.Command("xz", "-dc")
		cmd.Stdin = bytes.NewReader(s)
		out, err := cmd.Output()
		if err != nil || !bytes.Equal(out, plain) {
			t.Fatalf("xz-utils: case %d: %v", i, err)
		}
	}
}

func TestLibToRef(t *testing.T) {
	r := rand.New(rand.NewSource(3))
	for i := 0; i < 100; i++ {
		data := make([]byte, r.Intn(200000))
		for j := range data {
			data[j] = byte(r.Intn(1 + r.Intn(5)))
		}
		var buf bytes.Buffer
		cfg := xz.WriterConfig{DictCap: 4096 << uint(r.Intn(5)), BlockSize: int64(1 + r.Intn(100000)), CheckSum: []byte{1, 4, 10}[r.Intn(3)]}
		w, err := cfg.NewWriter(&buf)
		if err != nil {
			t.Fatal(err)
		}
		w.Write(data)
		w.Close()
		res, err := DecodeXZ(buf.Bytes())
		if err != nil {
			t.Fatalf("case %d: %v", i, err)
		}
		if !bytes.Equal(res.Out, data) {
			t.Fatalf("case %d mismatch", i)
		}
		var b2 bytes.Buffer
		lw, _ := lzma.WriterConfig{DictCap: 4096, SizeInHeader: r.Intn(2) == 0, Size: int64(len(data)), EOSMarker: r.Intn(2) == 0}.NewWriter(&b2)
		lw.Write(data)
		if err := lw.Close(); err != nil {
			t.Fatal(err)
		}
		lr, err := DecodeLZMA(b2.Bytes())
		if err != nil || !bytes.Equal(lr.Out, data) {
			t.Fatalf("lzma case %d (len %d): %v", i, len(data), err)
		}
	}
}

func TestCorpus(t *testing.T) {
	files, _ := filepath.Glob("/verif/corpus/*")
	for _, f := range files {
		b, _ := os.ReadFile(f)
		switch filepath.Ext(f) {
		case ".xz":
			if _, err := DecodeXZ(b); err != nil {
				t.Errorf("%s: %v", f, err)
			}
		case ".lzma":
			if _, err := DecodeLZMA(b); err != nil {
				t.Errorf("%s: %v", f, err)
			}
		}
	}
	bad, _ := filepath.Glob("/verif/corpus/bad/*.lzma")
	for _, f := range bad {
		b, _ := os.ReadFile(f)
		if _, err := DecodeLZMA(b); err == nil {
			t.Errorf("%s accepted", f)
		}
	}
}
