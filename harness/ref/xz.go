package ref

import (
	"bytes"
	"crypto/sha256"
	"encoding/binary"
	"errors"
	"fmt"
	"hash/crc32"
	"hash/crc64"
)

var xzMagic = []byte{0xFD, '7', 'z', 'X', 'Z', 0}
var xzFootMagic = []byte{'Y', 'Z'}

// Check ids.
const (
	CheckNone   = 0
	CheckCRC32  = 1
	CheckCRC64  = 4
	CheckSHA256 = 10
)

// CheckSize returns the size of the check field for a check id (0..15).
func CheckSize(id byte) int {
	switch {
	case id == 0:
		return 0
	case id <= 3:
		return 4
	case id <= 6:
		return 8
	case id <= 9:
		return 16
	case id <= 12:
		return 32
	}
	return 64
}

var crc64Tab = crc64.MakeTable(crc64.ECMA)

// CheckValue computes the check field for the supported ids.
func CheckValue(id byte, data []byte) []byte {
	switch id {
	case CheckNone:
		return nil
	case CheckCRC32:
		b := make([]byte, 4)
		binary.LittleEndian.PutUint32(b, crc32.ChecksumIEEE(data))
		return b
	case CheckCRC64:
		b := make([]byte, 8)
		binary.LittleEndian.PutUint64(b, crc64.Checksum(data, crc64Tab))
		return b
	case CheckSHA256:
		s := sha256.Sum256(data)
		return s[:]
	}
	return nil
}

// DictSizeForCode is the table of the 41 LZMA2 dictionary sizes.
func DictSizeForCode(c byte) (uint32, bool) {
	if c > 40 {
		return 0, false
	}
	if c == 40 {
		return 0xFFFFFFFF, true
	}
	return (2 | uint32(c)&1) << (uint(c)/2 + 11), true
}

// DictCodeFor returns the least code whose size is >= n.
func DictCodeFor(n uint32) byte {
	for c := byte(0); c <= 40; c++ {
		s, _ := DictSizeForCode(c)
		if s >= n {
			return c
		}
	}
	return 40
}

// Block describes a parsed block.
type Block struct {
	HeaderOff, HeaderLen   int
	HasCSize, HasUSize     bool
	CSizeField, USizeField int64
	DictCode               byte
	DictSize               uint32
	DataOff                int
	CompSize               int // measured
	USize                  int // measured
	Unpadded               int64
	PadLen                 int
	Chunks                 []Chunk
	Stats                  Stats
	ContentOff             int // offset of this block's plaintext in Out
}

// Stream describes one parsed xz stream.
type Stream struct {
	Off, Len               int
	Check                  byte
	Blocks                 []Block
	IndexOff               int
	IndexSize              int
	PadAfter               int
	ContentOff, ContentLen int
}

// XZResult is returned by DecodeXZ.
type XZResult struct {
	Out     []byte
	Streams []Stream
	Layout  Layout
}

func readVarint(p []byte) (v uint64, n int, err error) {
	for i := 0; i < 9; i++ {
		if i >= len(p) {
			return 0, i, ErrTruncated
		}
		b := p[i]
		v |= uint64(b&0x7F) << (7 * uint(i))
		if b&0x80 == 0 {
			if b == 0 && i > 0 {
				return 0, i + 1, errors.New("ref: non-minimal varint")
			}
			return v, i + 1, nil
		}
	}
	return 0, 9, errors.New("ref: varint too long")
}

// PutVarint appends the xz variable length integer.
func PutVarint(dst []byte, v uint64) []byte {
	for v >= 0x80 {
		dst = append(dst, byte(v)|0x80)
		v >>= 7
	}
	return append(dst, byte(v))
}

// DecodeXZ strictly decodes a file consisting of one or more xz streams with
// optional stream padding. Only the LZMA2 filter is supported.
func DecodeXZ(in []byte) (*XZResult, error) {
	res := &XZResult{}
	pos := 0
	if len(in) == 0 {
		return res, ErrTruncated
	}
	for pos < len(in) {
		si := len(res.Streams)
		st, n, err := decodeStream(in, pos, si, res)
		if err != nil {
			return res, err
		}
		pos += n
		// stream padding
		pad := 0
		for pos+pad < len(in) && in[pos+pad] == 0 {
			pad++
		}
		if pad%4 != 0 {
			if pos+pad == len(in) {
				return res, errors.New("ref: stream padding not a multiple of four")
			}
			// a header may follow only at 4-aligned padding
			return res, errors.New("ref: stream padding not a multiple of four")
		}
		res.Layout.add("stream_pad", pos, pad, -1, si)
		st.PadAfter = pad
		pos += pad
		res.Streams = append(res.Streams, *st)
	}
	return res, nil
}

func decodeStream(in []byte, off, si int, res *XZResult) (*Stream, int, error) {
	lay := &res.Layout
	st := &Stream{Off: off, ContentOff: len(res.Out)}
	p := in[off:]
	if len(p) < 12 {
		return nil, 0, ErrTruncated
	}
	if !bytes.Equal(p[:6], xzMagic) {
		return nil, 0, errors.New("ref: bad stream header magic")
	}
	if crc32.ChecksumIEEE(p[6:8]) != binary.LittleEndian.Uint32(p[8:12]) {
		return nil, 0, errors.New("ref: stream header CRC")
	}
	if p[6] != 0 || p[7]&0xF0 != 0 {
		return nil, 0, errors.New("ref: reserved stream flags")
	}
	st.Check = p[7]
	switch st.Check {
	case CheckNone, CheckCRC32, CheckCRC64, CheckSHA256:
	default:
		return nil, 0, fmt.Errorf("ref: unsupported check id %d", st.Check)
	}
	lay.add("stream_magic", off, 6, -1, si)
	lay.add("stream_flags", off+6, 2, -1, si)
	lay.add("stream_crc", off+8, 4, -1, si)
	pos := 12
	csz := CheckSize(st.Check)
	for {
		if pos >= len(p) {
			return nil, 0, ErrTruncated
		}
		if p[pos] == 0 {
			break
		}
		bi := len(st.Blocks)
		b := Block{HeaderOff: off + pos, ContentOff: len(res.Out)}
		hl := (int(p[pos]) + 1) * 4
		if pos+hl > len(p) {
			return nil, 0, ErrTruncated
		}
		h := p[pos : pos+hl]
		if crc32.ChecksumIEEE(h[:hl-4]) != binary.LittleEndian.Uint32(h[hl-4:]) {
			return nil, 0, errors.New("ref: block header CRC")
		}
		b.HeaderLen = hl
		flags := h[1]
		if flags&0x3C != 0 {
			return nil, 0, errors.New("ref: reserved block flags")
		}
		if flags&3 != 0 {
			return nil, 0, errors.New("ref: filter count unsupported")
		}
		lay.add("bh_size", off+pos, 1, bi, si)
		lay.add("bh_flags", off+pos+1, 1, bi, si)
		q := 2
		b.CSizeField, b.USizeField = -1, -1
		if flags&0x40 != 0 {
			v, n, err := readVarint(h[q : hl-4])
			if err != nil {
				return nil, 0, err
			}
			if v == 0 || v >= 1<<63 {
				return nil, 0, errors.New("ref: compressed size field invalid")
			}
			b.HasCSize, b.CSizeField = true, int64(v)
			lay.add("bh_csize", off+pos+q, n, bi, si)
			q += n
		}
		if flags&0x80 != 0 {
			v, n, err := readVarint(h[q : hl-4])
			if err != nil {
				return nil, 0, err
			}
			if v >= 1<<63 {
				return nil, 0, errors.New("ref: uncompressed size field invalid")
			}
			b.HasUSize, b.USizeField = true, int64(v)
			lay.add("bh_usize", off+pos+q, n, bi, si)
			q += n
		}
		id, n, err := readVarint(h[q : hl-4])
		if err != nil {
			return nil, 0, err
		}
		if id != 0x21 {
			return nil, 0, fmt.Errorf("ref: unsupported filter id %#x", id)
		}
		lay.add("bh_filter_id", off+pos+q, n, bi, si)
		q += n
		ps, n, err := readVarint(h[q : hl-4])
		if err != nil {
			return nil, 0, err
		}
		if ps != 1 {
			return nil, 0, errors.New("ref: LZMA2 filter properties size")
		}
		lay.add("bh_filter_psize", off+pos+q, n, bi, si)
		q += n
		if q >= hl-4 {
			return nil, 0, ErrCorrupt
		}
		b.DictCode = h[q]
		ds, ok := DictSizeForCode(h[q])
		if !ok {
			return nil, 0, errors.New("ref: dictionary size code invalid")
		}
		b.DictSize = ds
		lay.add("bh_filter_props", off+pos+q, 1, bi, si)
		q++
		for i := q; i < hl-4; i++ {
			if h[i] != 0 {
				return nil, 0, errors.New("ref: non-zero block header padding")
			}
		}
		lay.add("bh_pad", off+pos+q, hl-4-q, bi, si)
		lay.add("bh_crc", off+pos+hl-4, 4, bi, si)
		pos += hl
		b.DataOff = off + pos
		r, err := DecodeLZMA2(p[pos:], ds, true, lay, off+pos, bi, si)
		res.Out = append(res.Out, r.Out...)
		if err != nil {
			return nil, 0, err
		}
		b.CompSize, b.USize, b.Chunks, b.Stats = r.Consumed, len(r.Out), r.Chunks, r.Stats
		if b.HasCSize && b.CSizeField != int64(b.CompSize) {
			return nil, 0, errors.New("ref: compressed size field mismatch")
		}
		if b.HasUSize && b.USizeField != int64(b.USize) {
			return nil, 0, errors.New("ref: uncompressed size field mismatch")
		}
		pos += r.Consumed
		pad := (4 - r.Consumed%4) % 4
		if pos+pad+csz > len(p) {
			return nil, 0, ErrTruncated
		}
		for i := 0; i < pad; i++ {
			if p[pos+i] != 0 {
				return nil, 0, errors.New("ref: non-zero block padding")
			}
		}
		lay.add("blk_pad", off+pos, pad, bi, si)
		b.PadLen = pad
		pos += pad
		if !bytes.Equal(p[pos:pos+csz], CheckValue(st.Check, r.Out)) {
			return nil, 0, errors.New("ref: check mismatch")
		}
		lay.add("blk_check", off+pos, csz, bi, si)
		pos += csz
		b.Unpadded = int64(hl + r.Consumed + csz)
		st.Blocks = append(st.Blocks, b)
	}
	// index
	st.IndexOff = off + pos
	ipos := pos
	lay.add("idx_ind", off+pos, 1, -1, si)
	pos++
	cnt, n, err := readVarint(p[pos:])
	if err != nil {
		return nil, 0, err
	}
	if cnt != uint64(len(st.Blocks)) {
		return nil, 0, errors.New("ref: index record count mismatch")
	}
	lay.add("idx_count", off+pos, n, -1, si)
	pos += n
	for i := range st.Blocks {
		u, n, err := readVarint(p[pos:])
		if err != nil {
			return nil, 0, err
		}
		if int64(u) != st.Blocks[i].Unpadded {
			return nil, 0, fmt.Errorf("ref: index unpadded size of block %d is %d, measured %d", i, u, st.Blocks[i].Unpadded)
		}
		lay.add("idx_unpadded", off+pos, n, i, si)
		pos += n
		v, n, err := readVarint(p[pos:])
		if err != nil {
			return nil, 0, err
		}
		if int64(v) != int64(st.Blocks[i].USize) {
			return nil, 0, fmt.Errorf("ref: index uncompressed size of block %d", i)
		}
		lay.add("idx_usize", off+pos, n, i, si)
		pos += n
	}
	pad := (4 - (pos-ipos)%4) % 4
	if pos+pad+4 > len(p) {
		return nil, 0, ErrTruncated
	}
	for i := 0; i < pad; i++ {
		if p[pos+i] != 0 {
			return nil, 0, errors.New("ref: non-zero index padding")
		}
	}
	lay.add("idx_pad", off+pos, pad, -1, si)
	pos += pad
	if crc32.ChecksumIEEE(p[ipos:pos]) != binary.LittleEndian.Uint32(p[pos:]) {
		return nil, 0, errors.New("ref: index CRC")
	}
	lay.add("idx_crc", off+pos, 4, -1, si)
	pos += 4
	st.IndexSize = pos - ipos
	// footer
	if pos+12 > len(p) {
		return nil, 0, ErrTruncated
	}
	f := p[pos : pos+12]
	if !bytes.Equal(f[10:], xzFootMagic) {
		return nil, 0, errors.New("ref: footer magic")
	}
	if crc32.ChecksumIEEE(f[4:10]) != binary.LittleEndian.Uint32(f[:4]) {
		return nil, 0, errors.New("ref: footer CRC")
	}
	if (int(binary.LittleEndian.Uint32(f[4:8]))+1)*4 != st.IndexSize {
		return nil, 0, errors.New("ref: backward size mismatch")
	}
	if f[8] != p[6] || f[9] != p[7] {
		return nil, 0, errors.New("ref: footer flags differ from header flags")
	}
	lay.add("ft_crc", off+pos, 4, -1, si)
	lay.add("ft_bsize", off+pos+4, 4, -1, si)
	lay.add("ft_flags", off+pos+8, 2, -1, si)
	lay.add("ft_magic", off+pos+10, 2, -1, si)
	pos += 12
	st.Len = pos
	st.ContentLen = len(res.Out) - st.ContentOff
	return st, pos, nil
}

// BlockSpec describes a block for the xz generator.
type BlockSpec struct {
	Chunks    []ChunkSpec // must end with CkEnd
	DictCode  byte
	WithCSize bool
	WithUSize bool
	ExtraPad  int // extra header padding in units of 4 bytes
	// CSizeLie / USizeLie: value declared in the block header instead of the
	// truth (the field is then present whatever With* says); every CRC32 is
	// computed over what is written, so the result is a CRC-valid stream with
	// semantically absurd metadata
	CSizeLie *uint64
	USizeLie *uint64
}

// StreamSpec describes a stream for the xz generator.
type StreamSpec struct {
	Check  byte
	Blocks []BlockSpec
	// lies in the index and the footer (see BlockSpec.CSizeLie)
	CountLie    *uint64
	UnpaddedLie map[int]uint64
	RecUSizeLie map[int]uint64
	BackwardLie *uint32
	// DropRecs > 0: the index lists only the first len-DropRecs records, with
	// a matching count (a self-consistent index that covers fewer blocks than
	// the stream has); DropRecs < 0: the last record is listed -DropRecs
	// additional times
	DropRecs int
}

// EncodeXZ builds one xz stream. It returns the stream bytes and content.
func EncodeXZ(sp StreamSpec) (stream, plain []byte, err error) {
	hdr := append([]byte{}, xzMagic...)
	hdr = append(hdr, 0, sp.Check)
	hdr = binary.LittleEndian.AppendUint32(hdr, crc32.ChecksumIEEE(hdr[6:8]))
	stream = hdr
	type rec struct{ unpadded, usize uint64 }
	var recs []rec
	for _, b := range sp.Blocks {
		ds, ok := DictSizeForCode(b.DictCode)
		if !ok {
			return nil, nil, errors.New("ref: bad dict code")
		}
		data, content, err := EncodeLZMA2(b.Chunks, ds)
		if err != nil {
			return nil, nil, err
		}
		h := []byte{0, 0}
		if b.WithCSize || b.CSizeLie != nil {
			h[1] |= 0x40
			v := uint64(len(data))
			if b.CSizeLie != nil {
				v = *b.CSizeLie
			}
			h = PutVarint(h, v)
		}
		if b.WithUSize || b.USizeLie != nil {
			h[1] |= 0x80
			v := uint64(len(content))
			if b.USizeLie != nil {
				v = *b.USizeLie
			}
			h = PutVarint(h, v)
		}
		h = append(h, 0x21, 1, b.DictCode)
		for len(h)%4 != 0 {
			h = append(h, 0)
		}
		// extra padding, up to the largest header the size byte can state
		for i := 0; i < b.ExtraPad && len(h)+4+4 <= 1024; i++ {
			h = append(h, 0, 0, 0, 0)
		}
		if (len(h)+4)/4-1 > 255 {
			return nil, nil, errors.New("ref: block header too large")
		}
		h[0] = byte((len(h)+4)/4 - 1)
		h = binary.LittleEndian.AppendUint32(h, crc32.ChecksumIEEE(h))
		stream = append(stream, h...)
		stream = append(stream, data...)
		for i := 0; i < (4-len(data)%4)%4; i++ {
			stream = append(stream, 0)
		}
		ck := CheckValue(sp.Check, content)
		stream = append(stream, ck...)
		recs = append(recs, rec{uint64(len(h) + len(data) + len(ck)), uint64(len(content))})
		plain = append(plain, content...)
	}
	idx := []byte{0}
	if sp.DropRecs > 0 && sp.DropRecs <= len(recs) {
		recs = recs[:len(recs)-sp.DropRecs]
	}
	for k := sp.DropRecs; k < 0 && len(recs) > 0; k++ {
		recs = append(recs, recs[len(recs)-1])
	}
	cnt := uint64(len(recs))
	if sp.CountLie != nil {
		cnt = *sp.CountLie
	}
	idx = PutVarint(idx, cnt)
	for i, r := range recs {
		if v, ok := sp.UnpaddedLie[i]; ok {
			r.unpadded = v
		}
		if v, ok := sp.RecUSizeLie[i]; ok {
			r.usize = v
		}
		idx = PutVarint(idx, r.unpadded)
		idx = PutVarint(idx, r.usize)
	}
	for len(idx)%4 != 0 {
		idx = append(idx, 0)
	}
	idx = binary.LittleEndian.AppendUint32(idx, crc32.ChecksumIEEE(idx))
	stream = append(stream, idx...)
	ft := make([]byte, 12)
	binary.LittleEndian.PutUint32(ft[4:], uint32(len(idx)/4-1))
	if sp.BackwardLie != nil {
		binary.LittleEndian.PutUint32(ft[4:], *sp.BackwardLie)
	}
	ft[8], ft[9] = 0, sp.Check
	copy(ft[10:], xzFootMagic)
	binary.LittleEndian.PutUint32(ft, crc32.ChecksumIEEE(ft[4:10]))
	stream = append(stream, ft...)
	return stream, plain, nil
}

// Reseal recomputes, in place, the CRC32 that covers offset off according to
// the layout (stream header, block header, index, footer). It returns false
// if off is not covered by a CRC32 (payload, padding, check).
func Reseal(data []byte, lay *Layout, off int) bool {
	s := lay.KindAt(off)
	if s == nil {
		return false
	}
	find := func(kind string, stream, block int) *Span {
		for i := range lay.Spans {
			t := &lay.Spans[i]
			if t.Kind == kind && t.Stream == stream && (block < 0 || t.Block == block) {
				return t
			}
		}
		return nil
	}
	switch s.Kind {
	case "stream_flags":
		c := find("stream_crc", s.Stream, -1)
		binary.LittleEndian.PutUint32(data[c.Off:], crc32.ChecksumIEEE(data[c.Off-2:c.Off]))
		return true
	case "bh_size", "bh_flags", "bh_csize", "bh_usize", "bh_filter_id", "bh_filter_psize", "bh_filter_props", "bh_pad":
		st := find("bh_size", s.Stream, s.Block)
		c := find("bh_crc", s.Stream, s.Block)
		binary.LittleEndian.PutUint32(data[c.Off:], crc32.ChecksumIEEE(data[st.Off:c.Off]))
		return true
	case "idx_ind", "idx_count", "idx_unpadded", "idx_usize", "idx_pad":
		st := find("idx_ind", s.Stream, -1)
		c := find("idx_crc", s.Stream, -1)
		binary.LittleEndian.PutUint32(data[c.Off:], crc32.ChecksumIEEE(data[st.Off:c.Off]))
		return true
	case "ft_bsize", "ft_flags":
		c := find("ft_crc", s.Stream, -1)
		binary.LittleEndian.PutUint32(data[c.Off:], crc32.ChecksumIEEE(data[c.Off+4:c.Off+10]))
		return true
	}
	return false
}
