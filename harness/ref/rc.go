// Package ref is an independent implementation of the LZMA, LZMA2, .lzma and
// .xz formats written from the format documents. It shares no code with the
// library under test. It contains strict decoders that return a byte-span
// layout of what they parsed, and encoders that turn explicit operation
// lists into streams.
package ref

import "errors"

const (
	probBits = 11
	probInit = 1 << (probBits - 1)
	moveBits = 5
	topValue = 1 << 24
)

// ErrTruncated is returned when the compressed input ends early.
var ErrTruncated = errors.New("ref: compressed data truncated")

// ErrCorrupt is the generic data error.
var ErrCorrupt = errors.New("ref: corrupt data")

// rdec is the range decoder of the LZMA specification: it normalises after
// every decoded bit, so that after the last symbol exactly the bytes the
// encoder produced have been consumed.
type rdec struct {
	in   []byte
	pos  int
	rng  uint32
	code uint32
	err  error
}

func newRdec(in []byte) (*rdec, error) {
	if len(in) < 5 {
		return nil, ErrTruncated
	}
	if in[0] != 0 {
		return nil, errors.New("ref: first range coder byte not zero")
	}
	d := &rdec{in: in, pos: 5, rng: 0xFFFFFFFF}
	d.code = uint32(in[1])<<24 | uint32(in[2])<<16 | uint32(in[3])<<8 | uint32(in[4])
	if d.code == d.rng {
		return nil, ErrCorrupt
	}
	return d, nil
}

func (d *rdec) normalize() {
	if d.rng < topValue {
		d.rng <<= 8
		if d.pos >= len(d.in) {
			if d.err == nil {
				d.err = ErrTruncated
			}
			d.code <<= 8
			return
		}
		d.code = d.code<<8 | uint32(d.in[d.pos])
		d.pos++
	}
}

func (d *rdec) bit(p *uint16) uint32 {
	bound := (d.rng >> probBits) * uint32(*p)
	var b uint32
	if d.code < bound {
		d.rng = bound
		*p += (1<<probBits - *p) >> moveBits
	} else {
		d.code -= bound
		d.rng -= bound
		*p -= *p >> moveBits
		b = 1
	}
	d.normalize()
	return b
}

func (d *rdec) direct(n int) uint32 {
	var res uint32
	for ; n > 0; n-- {
		d.rng >>= 1
		d.code -= d.rng
		t := 0 - (d.code >> 31)
		d.code += d.rng & t
		if d.code == d.rng {
			if d.err == nil {
				d.err = ErrCorrupt
			}
		}
		d.normalize()
		res = res<<1 + t + 1
	}
	return res
}

func (d *rdec) finishedOK() bool { return d.code == 0 }

// renc is the range encoder of the LZMA SDK.
type renc struct {
	out       []byte
	low       uint64
	rng       uint32
	cache     byte
	cacheSize int64
}

func newRenc() *renc {
	return &renc{rng: 0xFFFFFFFF, cacheSize: 1}
}

func (e *renc) shiftLow() {
	if uint32(e.low) < 0xFF000000 || (e.low>>32) != 0 {
		temp := e.cache
		for {
			e.out = append(e.out, temp+byte(e.low>>32))
			temp = 0xFF
			e.cacheSize--
			if e.cacheSize == 0 {
				break
			}
		}
		e.cache = byte(uint32(e.low) >> 24)
	}
	e.cacheSize++
	e.low = uint64(uint32(e.low)&0x00FFFFFF) << 8
}

func (e *renc) bit(p *uint16, b uint32) {
	bound := (e.rng >> probBits) * uint32(*p)
	if b == 0 {
		e.rng = bound
		*p += (1<<probBits - *p) >> moveBits
	} else {
		e.low += uint64(bound)
		e.rng -= bound
		*p -= *p >> moveBits
	}
	for e.rng < topValue {
		e.rng <<= 8
		e.shiftLow()
	}
}

func (e *renc) direct(v uint32, n int) {
	for i := n - 1; i >= 0; i-- {
		e.rng >>= 1
		if (v>>uint(i))&1 == 1 {
			e.low += uint64(e.rng)
		}
		for e.rng < topValue {
			e.rng <<= 8
			e.shiftLow()
		}
	}
}

func (e *renc) flush() []byte {
	for i := 0; i < 5; i++ {
		e.shiftLow()
	}
	return e.out
}

// pending returns an upper bound of the bytes the encoder would emit if it
// were flushed now.
func (e *renc) pending() int {
	return len(e.out) + int(e.cacheSize) + 4
}
