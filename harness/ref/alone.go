package ref

import (
	"encoding/binary"
	"errors"
)

// LZMAResult is what DecodeLZMA returns.
type LZMAResult struct {
	Out       []byte
	Props     Props
	DictSize  uint32 // header field as written
	SizeField int64  // -1 = unknown
	Marker    bool
	Consumed  int
	Stats     Stats
}

// DecodeLZMA strictly decodes a classic .lzma stream that must fill `in`
// exactly.
func DecodeLZMA(in []byte) (*LZMAResult, error) {
	res := &LZMAResult{}
	if len(in) < 13 {
		return res, ErrTruncated
	}
	p, err := PropsFromCode(in[0])
	if err != nil {
		return res, err
	}
	res.Props = p
	res.DictSize = binary.LittleEndian.Uint32(in[1:5])
	sz := binary.LittleEndian.Uint64(in[5:13])
	if sz == 1<<64-1 {
		res.SizeField = -1
	} else {
		if sz >= 1<<63 {
			return res, errors.New("ref: size field too large")
		}
		res.SizeField = int64(sz)
	}
	ds := res.DictSize
	if ds < 4096 {
		ds = 4096
	}
	w := &window{dictSize: ds}
	rd, err := newRdec(in[13:])
	if err != nil {
		return res, err
	}
	d := &lzDec{m: newModel(p), w: w, rd: rd}
	marker, err := d.decode(res.SizeField, true)
	res.Out = w.out
	res.Stats = d.st
	res.Marker = marker
	res.Consumed = 13 + rd.pos
	if err != nil {
		return res, err
	}
	if rd.pos != len(rd.in) {
		return res, errors.New("ref: trailing bytes after LZMA stream")
	}
	return res, nil
}

// EncodeLZMA builds a classic .lzma stream from an operation list.
// sizeMode: 0 = marker only (size unknown), 1 = size known without marker,
// 2 = size known and marker. dictField is written to the header as is; the
// window used for legality is max(dictField, 4096).
func EncodeLZMA(p Props, dictField uint32, ops []Op, sizeMode int) (stream, plain []byte, err error) {
	return EncodeLZMAMarker(p, dictField, ops, sizeMode, 2)
}

// EncodeLZMAMarker is EncodeLZMA with a chosen length for the end marker: the
// marker is the match with distance 0xFFFFFFFF, whatever its length (2..273);
// encoders write 2, decoders must not care.
func EncodeLZMAMarker(p Props, dictField uint32, ops []Op, sizeMode int, markerLen int) (stream, plain []byte, err error) {
	if markerLen < 2 || markerLen > 273 {
		markerLen = 2
	}
	ds := dictField
	if ds < 4096 {
		ds = 4096
	}
	w := &window{dictSize: ds}
	e := &lzEnc{m: newModel(p), w: w, re: newRenc()}
	for _, op := range ops {
		if err := e.encodeOp(op); err != nil {
			return nil, nil, err
		}
	}
	if sizeMode != 1 {
		if err := e.encodeOp(Op{Kind: OpMatch, Dist: EOSDist, Len: markerLen}); err != nil {
			return nil, nil, err
		}
	}
	payload := e.re.flush()
	hdr := make([]byte, 13)
	hdr[0] = p.Code()
	binary.LittleEndian.PutUint32(hdr[1:], dictField)
	if sizeMode == 0 {
		binary.LittleEndian.PutUint64(hdr[5:], 1<<64-1)
	} else {
		binary.LittleEndian.PutUint64(hdr[5:], uint64(len(w.out)))
	}
	return append(hdr, payload...), w.out, nil
}
