package ref

import (
	"errors"
	"fmt"
)

const (
	numStates     = 12
	numPosBitsMax = 4
	numLenToPos   = 4
	numAlignBits  = 4
	startPosModel = 4
	endPosModel   = 14
	numFullDist   = 1 << (endPosModel >> 1)
	matchMinLen   = 2
	MaxMatchLen   = 273
	EOSDist       = 0xFFFFFFFF
)

// OpKind enumerates the LZMA operations.
type OpKind uint8

const (
	OpLit OpKind = iota
	OpMatch
	OpRep      // rep match with index Rep (0..3), length >= 2
	OpShortRep // one byte at distance rep0
)

func (k OpKind) String() string {
	return [...]string{"lit", "match", "rep", "shortrep"}[k]
}

// Op is one LZMA operation. Dist is the zero-based distance (0 = previous
// byte) for OpMatch; Rep the index for OpRep; Len the length for OpMatch/OpRep.
type Op struct {
	Kind OpKind
	Byte byte
	Dist uint32
	Rep  int
	Len  int
}

// Props holds lc, lp, pb.
type Props struct{ LC, LP, PB int }

// Code returns the properties byte.
func (p Props) Code() byte { return byte((p.PB*5+p.LP)*9 + p.LC) }

// PropsFromCode decodes a properties byte.
func PropsFromCode(c byte) (Props, error) {
	if c >= 9*5*5 {
		return Props{}, errors.New("ref: properties byte out of range")
	}
	lc := int(c % 9)
	c /= 9
	return Props{LC: lc, LP: int(c % 5), PB: int(c / 5)}, nil
}

type lenModel struct {
	choice, choice2 uint16
	low, mid        [1 << numPosBitsMax][8]uint16
	high            [256]uint16
}

func (l *lenModel) init() {
	l.choice, l.choice2 = probInit, probInit
	for i := range l.low {
		for j := range l.low[i] {
			l.low[i][j] = probInit
			l.mid[i][j] = probInit
		}
	}
	for i := range l.high {
		l.high[i] = probInit
	}
}

// model is the probability model and coder state shared by the reference
// decoder and encoder.
type model struct {
	p           Props
	state       int
	rep         [4]uint32
	isMatch     [numStates << numPosBitsMax]uint16
	isRep       [numStates]uint16
	isRepG0     [numStates]uint16
	isRepG1     [numStates]uint16
	isRepG2     [numStates]uint16
	isRep0Long  [numStates << numPosBitsMax]uint16
	posSlot     [numLenToPos][64]uint16
	posSpecial  [1 + numFullDist - endPosModel]uint16
	align       [1 << numAlignBits]uint16
	lenM, repLn lenModel
	lit         []uint16
}

func newModel(p Props) *model {
	m := &model{p: p}
	m.reset()
	return m
}

func fill(s []uint16) {
	for i := range s {
		s[i] = probInit
	}
}

func (m *model) reset() {
	m.state = 0
	m.rep = [4]uint32{}
	fill(m.isMatch[:])
	fill(m.isRep[:])
	fill(m.isRepG0[:])
	fill(m.isRepG1[:])
	fill(m.isRepG2[:])
	fill(m.isRep0Long[:])
	for i := range m.posSlot {
		fill(m.posSlot[i][:])
	}
	fill(m.posSpecial[:])
	fill(m.align[:])
	m.lenM.init()
	m.repLn.init()
	n := 0x300 << uint(m.p.LC+m.p.LP)
	if len(m.lit) != n {
		m.lit = make([]uint16, n)
	}
	fill(m.lit)
}

func (m *model) setProps(p Props) {
	m.p = p
	m.reset()
}

func stLit(s int) int {
	switch {
	case s < 4:
		return 0
	case s < 10:
		return s - 3
	}
	return s - 6
}
func stMatch(s int) int {
	if s < 7 {
		return 7
	}
	return 10
}
func stRep(s int) int {
	if s < 7 {
		return 8
	}
	return 11
}
func stShortRep(s int) int {
	if s < 7 {
		return 9
	}
	return 11
}

// Stats summarises the operations of a decoded LZMA stream or chunk list.
type Stats struct {
	Lits, Matches, ShortReps int
	Reps                     [4]int
	MaxDist                  int64 // largest distance used (1-based), 0 if none
	MatchEqRep               int   // plain matches whose distance equals a current rep
	EdgeMatches              int   // matches whose distance equals the available window
	MaxLen                   int
	Len2                     int
	Marker                   bool
}

func (s *Stats) add(o *Stats) {
	s.Lits += o.Lits
	s.Matches += o.Matches
	s.ShortReps += o.ShortReps
	for i := range s.Reps {
		s.Reps[i] += o.Reps[i]
	}
	if o.MaxDist > s.MaxDist {
		s.MaxDist = o.MaxDist
	}
	s.MatchEqRep += o.MatchEqRep
	s.EdgeMatches += o.EdgeMatches
	if o.MaxLen > s.MaxLen {
		s.MaxLen = o.MaxLen
	}
	s.Len2 += o.Len2
	s.Marker = s.Marker || o.Marker
}

// window is the output history. All output since the beginning is kept;
// dictStart marks the position of the last dictionary reset.
type window struct {
	out       []byte
	dictStart int
	dictSize  uint32
}

func (w *window) avail() int { return len(w.out) - w.dictStart }
func (w *window) pos() int   { return len(w.out) - w.dictStart }

func (w *window) byteAt(dist uint32) byte { // dist zero-based
	return w.out[len(w.out)-1-int(dist)]
}

func (w *window) distOK(dist uint32) bool {
	return dist < w.dictSize && int64(dist) < int64(w.avail())
}

// lzDec decodes LZMA operations from a range decoder into a window.
type lzDec struct {
	m  *model
	w  *window
	rd *rdec
	st Stats
}

func (d *lzDec) bittree(probs []uint16, bits int) uint32 {
	m := uint32(1)
	for i := 0; i < bits; i++ {
		m = m<<1 + d.rd.bit(&probs[m])
	}
	return m - 1<<uint(bits)
}

func (d *lzDec) bittreeRev(probs []uint16, bits int) uint32 {
	m := uint32(1)
	var sym uint32
	for i := 0; i < bits; i++ {
		b := d.rd.bit(&probs[m])
		m = m<<1 + b
		sym |= b << uint(i)
	}
	return sym
}

func (d *lzDec) decodeLen(l *lenModel, posState int) int {
	if d.rd.bit(&l.choice) == 0 {
		return int(d.bittree(l.low[posState][:], 3))
	}
	if d.rd.bit(&l.choice2) == 0 {
		return 8 + int(d.bittree(l.mid[posState][:], 3))
	}
	return 16 + int(d.bittree(l.high[:], 8))
}

func (d *lzDec) decodeDist(lenOff int) uint32 {
	ls := lenOff
	if ls > numLenToPos-1 {
		ls = numLenToPos - 1
	}
	slot := d.bittree(d.m.posSlot[ls][:], 6)
	if slot < 4 {
		return slot
	}
	nd := int(slot>>1) - 1
	dist := (2 | (slot & 1)) << uint(nd)
	if slot < endPosModel {
		dist += d.bittreeRev(d.m.posSpecial[dist-slot:], nd)
	} else {
		dist += d.rd.direct(nd-numAlignBits) << numAlignBits
		dist += d.bittreeRev(d.m.align[:], numAlignBits)
	}
	return dist
}

func (d *lzDec) decodeLiteral() byte {
	var prev byte
	if d.w.avail() > 0 {
		prev = d.w.byteAt(0)
	}
	p := d.m.p
	litState := (uint32(d.w.pos())&(1<<uint(p.LP)-1))<<uint(p.LC) + uint32(prev)>>(8-uint(p.LC))
	probs := d.m.lit[0x300*litState:]
	sym := uint32(1)
	if d.m.state >= 7 {
		mb := uint32(d.w.byteAt(d.m.rep[0]))
		for sym < 0x100 {
			mbit := (mb >> 7) & 1
			mb <<= 1
			b := d.rd.bit(&probs[((1+mbit)<<8)+sym])
			sym = sym<<1 | b
			if mbit != b {
				break
			}
		}
	}
	for sym < 0x100 {
		sym = sym<<1 | d.rd.bit(&probs[sym])
	}
	return byte(sym)
}

var errMarker = errors.New("ref: end marker")

// decode decodes until exactly `size` bytes were produced (size >= 0), or,
// for size < 0, until an end marker. With size >= 0 and allowMarker, decoding
// continues after `size` bytes if the range decoder is not in its final
// state and then requires an end marker. It returns whether a marker was
// seen.
func (d *lzDec) decode(size int64, allowMarker bool) (marker bool, err error) {
	var produced int64
	for {
		if size >= 0 && produced == size {
			if d.rd.finishedOK() && d.rd.pos == len(d.rd.in) {
				return false, nil
			}
			if !allowMarker {
				// LZMA2: chunk must end exactly here
				return false, fmt.Errorf("ref: chunk not finished cleanly (code=%#x, %d bytes left)", d.rd.code, len(d.rd.in)-d.rd.pos)
			}
		}
		posState := d.w.pos() & (1<<uint(d.m.p.PB) - 1)
		st := d.m.state
		if d.rd.bit(&d.m.isMatch[st<<numPosBitsMax+posState]) == 0 {
			if d.rd.err != nil {
				return false, d.rd.err
			}
			if size >= 0 && produced == size {
				return false, errors.New("ref: data after declared size")
			}
			if st >= 7 && !d.w.distOK(d.m.rep[0]) {
				return false, errors.New("ref: matched literal with invalid rep0")
			}
			b := d.decodeLiteral()
			if d.rd.err != nil {
				return false, d.rd.err
			}
			d.w.out = append(d.w.out, b)
			d.m.state = stLit(st)
			d.st.Lits++
			produced++
			continue
		}
		var n int
		if d.rd.bit(&d.m.isRep[st]) != 0 {
			if d.rd.err != nil {
				return false, d.rd.err
			}
			if size >= 0 && produced == size {
				return false, errors.New("ref: data after declared size")
			}
			if d.w.avail() == 0 {
				return false, errors.New("ref: rep match with empty window")
			}
			if d.rd.bit(&d.m.isRepG0[st]) == 0 {
				if d.rd.bit(&d.m.isRep0Long[st<<numPosBitsMax+posState]) == 0 {
					if d.rd.err != nil {
						return false, d.rd.err
					}
					if !d.w.distOK(d.m.rep[0]) {
						return false, errors.New("ref: short rep distance invalid")
					}
					d.m.state = stShortRep(st)
					d.w.out = append(d.w.out, d.w.byteAt(d.m.rep[0]))
					d.st.ShortReps++
					d.noteDist(d.m.rep[0], 1)
					produced++
					continue
				}
				d.st.Reps[0]++
			} else {
				var dist uint32
				if d.rd.bit(&d.m.isRepG1[st]) == 0 {
					dist = d.m.rep[1]
					d.st.Reps[1]++
				} else {
					if d.rd.bit(&d.m.isRepG2[st]) == 0 {
						dist = d.m.rep[2]
						d.st.Reps[2]++
					} else {
						dist = d.m.rep[3]
						d.m.rep[3] = d.m.rep[2]
						d.st.Reps[3]++
					}
					d.m.rep[2] = d.m.rep[1]
				}
				d.m.rep[1] = d.m.rep[0]
				d.m.rep[0] = dist
			}
			n = d.decodeLen(&d.m.repLn, posState)
			d.m.state = stRep(st)
		} else {
			old := d.m.rep
			d.m.rep[3], d.m.rep[2], d.m.rep[1] = d.m.rep[2], d.m.rep[1], d.m.rep[0]
			n = d.decodeLen(&d.m.lenM, posState)
			d.m.state = stMatch(st)
			d.m.rep[0] = d.decodeDist(n)
			if d.rd.err != nil {
				return false, d.rd.err
			}
			if d.m.rep[0] == EOSDist {
				if !allowMarker {
					return false, errors.New("ref: end marker not allowed here")
				}
				if !d.rd.finishedOK() {
					return false, errors.New("ref: range coder not finished at end marker")
				}
				if size >= 0 && produced != size {
					return false, errors.New("ref: end marker before declared size")
				}
				d.st.Marker = true
				return true, nil
			}
			if size >= 0 && produced == size {
				return false, errors.New("ref: data after declared size")
			}
			d.st.Matches++
			for _, r := range old {
				if r == d.m.rep[0] {
					d.st.MatchEqRep++
					break
				}
			}
		}
		if d.rd.err != nil {
			return false, d.rd.err
		}
		n += matchMinLen
		if !d.w.distOK(d.m.rep[0]) {
			return false, fmt.Errorf("ref: distance %d out of range (window %d, dict %d)", d.m.rep[0], d.w.avail(), d.w.dictSize)
		}
		if size >= 0 && produced+int64(n) > size {
			return false, errors.New("ref: match exceeds declared size")
		}
		d.noteDist(d.m.rep[0], n)
		dist := int(d.m.rep[0]) + 1
		for i := 0; i < n; i++ {
			d.w.out = append(d.w.out, d.w.out[len(d.w.out)-dist])
		}
		produced += int64(n)
	}
}

func (d *lzDec) noteDist(dist uint32, n int) {
	dd := int64(dist) + 1
	if dd > d.st.MaxDist {
		d.st.MaxDist = dd
	}
	lim := int64(d.w.avail())
	if int64(d.w.dictSize) < lim {
		lim = int64(d.w.dictSize)
	}
	if dd == lim {
		d.st.EdgeMatches++
	}
	if n > d.st.MaxLen {
		d.st.MaxLen = n
	}
	if n == 2 {
		d.st.Len2++
	}
}

// lzEnc encodes explicit operations.
type lzEnc struct {
	m  *model
	w  *window
	re *renc
}

func (e *lzEnc) bittree(probs []uint16, bits int, v uint32) {
	m := uint32(1)
	for i := bits - 1; i >= 0; i-- {
		b := (v >> uint(i)) & 1
		e.re.bit(&probs[m], b)
		m = m<<1 | b
	}
}

func (e *lzEnc) bittreeRev(probs []uint16, bits int, v uint32) {
	m := uint32(1)
	for i := 0; i < bits; i++ {
		b := v & 1
		v >>= 1
		e.re.bit(&probs[m], b)
		m = m<<1 | b
	}
}

func (e *lzEnc) encodeLen(l *lenModel, posState int, n int) {
	switch {
	case n < 8:
		e.re.bit(&l.choice, 0)
		e.bittree(l.low[posState][:], 3, uint32(n))
	case n < 16:
		e.re.bit(&l.choice, 1)
		e.re.bit(&l.choice2, 0)
		e.bittree(l.mid[posState][:], 3, uint32(n-8))
	default:
		e.re.bit(&l.choice, 1)
		e.re.bit(&l.choice2, 1)
		e.bittree(l.high[:], 8, uint32(n-16))
	}
}

func distSlot(dist uint32) uint32 {
	if dist < 4 {
		return dist
	}
	n := uint32(31)
	for dist>>n == 0 {
		n--
	}
	return n<<1 | (dist>>(n-1))&1
}

func (e *lzEnc) encodeDist(lenOff int, dist uint32) {
	ls := lenOff
	if ls > numLenToPos-1 {
		ls = numLenToPos - 1
	}
	slot := distSlot(dist)
	e.bittree(e.m.posSlot[ls][:], 6, slot)
	if slot < 4 {
		return
	}
	nd := int(slot>>1) - 1
	base := (2 | (slot & 1)) << uint(nd)
	rem := dist - base
	if slot < endPosModel {
		e.bittreeRev(e.m.posSpecial[base-slot:], nd, rem)
	} else {
		e.re.direct(rem>>numAlignBits, nd-numAlignBits)
		e.bittreeRev(e.m.align[:], numAlignBits, rem&(1<<numAlignBits-1))
	}
}

// ErrBadOp is returned by the encoder for operations that are not legal in
// the current state (invalid distance, rep with empty window ...).
var ErrBadOp = errors.New("ref: illegal operation for current state")

// encodeOp encodes one operation and applies it to the window.
func (e *lzEnc) encodeOp(op Op) error {
	posState := e.w.pos() & (1<<uint(e.m.p.PB) - 1)
	st := e.m.state
	switch op.Kind {
	case OpLit:
		if st >= 7 && !e.w.distOK(e.m.rep[0]) {
			return ErrBadOp
		}
		e.re.bit(&e.m.isMatch[st<<numPosBitsMax+posState], 0)
		var prev byte
		if e.w.avail() > 0 {
			prev = e.w.byteAt(0)
		}
		p := e.m.p
		litState := (uint32(e.w.pos())&(1<<uint(p.LP)-1))<<uint(p.LC) + uint32(prev)>>(8-uint(p.LC))
		probs := e.m.lit[0x300*litState:]
		sym := uint32(op.Byte) | 0x100
		ctx := uint32(1)
		if st >= 7 {
			mb := uint32(e.w.byteAt(e.m.rep[0]))
			offs := uint32(0x100)
			// SDK style matched literal encoding
			_ = offs
			i := 7
			for ; i >= 0; i-- {
				mbit := (mb >> uint(i)) & 1
				b := (sym >> uint(i)) & 1
				e.re.bit(&probs[((1+mbit)<<8)+ctx], b)
				ctx = ctx<<1 | b
				if mbit != b {
					i--
					break
				}
			}
			for ; i >= 0; i-- {
				b := (sym >> uint(i)) & 1
				e.re.bit(&probs[ctx], b)
				ctx = ctx<<1 | b
			}
		} else {
			for i := 7; i >= 0; i-- {
				b := (sym >> uint(i)) & 1
				e.re.bit(&probs[ctx], b)
				ctx = ctx<<1 | b
			}
		}
		e.w.out = append(e.w.out, op.Byte)
		e.m.state = stLit(st)
		return nil
	case OpShortRep:
		if e.w.avail() == 0 || !e.w.distOK(e.m.rep[0]) {
			return ErrBadOp
		}
		e.re.bit(&e.m.isMatch[st<<numPosBitsMax+posState], 1)
		e.re.bit(&e.m.isRep[st], 1)
		e.re.bit(&e.m.isRepG0[st], 0)
		e.re.bit(&e.m.isRep0Long[st<<numPosBitsMax+posState], 0)
		e.m.state = stShortRep(st)
		e.w.out = append(e.w.out, e.w.byteAt(e.m.rep[0]))
		return nil
	case OpRep:
		if op.Len < 2 || op.Len > MaxMatchLen || op.Rep < 0 || op.Rep > 3 {
			return ErrBadOp
		}
		if e.w.avail() == 0 || !e.w.distOK(e.m.rep[op.Rep]) {
			return ErrBadOp
		}
		e.re.bit(&e.m.isMatch[st<<numPosBitsMax+posState], 1)
		e.re.bit(&e.m.isRep[st], 1)
		if op.Rep == 0 {
			e.re.bit(&e.m.isRepG0[st], 0)
			e.re.bit(&e.m.isRep0Long[st<<numPosBitsMax+posState], 1)
		} else {
			e.re.bit(&e.m.isRepG0[st], 1)
			dist := e.m.rep[op.Rep]
			if op.Rep == 1 {
				e.re.bit(&e.m.isRepG1[st], 0)
			} else {
				e.re.bit(&e.m.isRepG1[st], 1)
				if op.Rep == 2 {
					e.re.bit(&e.m.isRepG2[st], 0)
				} else {
					e.re.bit(&e.m.isRepG2[st], 1)
					e.m.rep[3] = e.m.rep[2]
				}
				e.m.rep[2] = e.m.rep[1]
			}
			e.m.rep[1] = e.m.rep[0]
			e.m.rep[0] = dist
		}
		e.encodeLen(&e.m.repLn, posState, op.Len-matchMinLen)
		e.m.state = stRep(st)
		e.copy(op.Len)
		return nil
	case OpMatch:
		if op.Len < 2 || op.Len > MaxMatchLen {
			return ErrBadOp
		}
		if op.Dist != EOSDist && !e.w.distOK(op.Dist) {
			return ErrBadOp
		}
		e.re.bit(&e.m.isMatch[st<<numPosBitsMax+posState], 1)
		e.re.bit(&e.m.isRep[st], 0)
		e.m.rep[3], e.m.rep[2], e.m.rep[1] = e.m.rep[2], e.m.rep[1], e.m.rep[0]
		e.encodeLen(&e.m.lenM, posState, op.Len-matchMinLen)
		e.m.state = stMatch(st)
		e.m.rep[0] = op.Dist
		e.encodeDist(op.Len-matchMinLen, op.Dist)
		if op.Dist != EOSDist {
			e.copy(op.Len)
		}
		return nil
	}
	return ErrBadOp
}

func (e *lzEnc) copy(n int) {
	dist := int(e.m.rep[0]) + 1
	for i := 0; i < n; i++ {
		e.w.out = append(e.w.out, e.w.out[len(e.w.out)-dist])
	}
}
