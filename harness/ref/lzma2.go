package ref

import (
	"errors"
	"fmt"
)

// Span is one field of a parsed stream.
type Span struct {
	Kind   string `json:"kind"`
	Off    int    `json:"off"`
	Len    int    `json:"len"`
	Block  int    `json:"block"`  // block index within stream, -1 if none
	Stream int    `json:"stream"` // stream index
}

// Layout is the list of all fields in stream order. Spans are contiguous and
// cover the parsed input completely.
type Layout struct {
	Spans []Span
}

func (l *Layout) add(kind string, off, n, block, stream int) {
	if l == nil || n == 0 {
		return
	}
	l.Spans = append(l.Spans, Span{kind, off, n, block, stream})
}

// KindAt returns the span containing offset off, or nil.
func (l *Layout) KindAt(off int) *Span {
	for i := range l.Spans {
		s := &l.Spans[i]
		if off >= s.Off && off < s.Off+s.Len {
			return s
		}
	}
	return nil
}

// Find returns all spans of the given kind.
func (l *Layout) Find(kind string) []Span {
	var r []Span
	for _, s := range l.Spans {
		if s.Kind == kind {
			r = append(r, s)
		}
	}
	return r
}

// Chunk kinds, numbered like the seven kinds of the format.
const (
	CkEnd  = iota
	CkRawD // uncompressed, dictionary reset (control 1)
	CkRaw  // uncompressed (control 2)
	CkL    // LZMA, nothing reset
	CkLR   // LZMA, state reset
	CkLRN  // LZMA, state reset, new properties
	CkLRND // LZMA, state reset, new properties, dictionary reset
)

// CkNames names the chunk kinds.
var CkNames = [...]string{"end", "rawD", "raw", "L", "LR", "LRN", "LRND"}

// Chunk describes one parsed LZMA2 chunk.
type Chunk struct {
	Kind   int
	Ctrl   byte
	Off    int // offset of the control byte
	HdrLen int
	USize  int
	CSize  int // payload bytes (for raw chunks == USize)
	Props  Props
	Stats  Stats
}

// LZMA2Result is what DecodeLZMA2 returns.
type LZMA2Result struct {
	Out      []byte
	Chunks   []Chunk
	Stats    Stats
	Consumed int
	Ended    bool // end chunk (0x00) was read
}

func ctrlKind(c byte) (int, error) {
	switch {
	case c == 0:
		return CkEnd, nil
	case c == 1:
		return CkRawD, nil
	case c == 2:
		return CkRaw, nil
	case c < 0x80:
		return 0, fmt.Errorf("ref: invalid LZMA2 control byte %#02x", c)
	}
	return CkL + int(c>>5)&3, nil
}

// DecodeLZMA2 strictly decodes an LZMA2 chunk sequence starting at in[0].
// With requireEnd the sequence must be terminated by an end chunk, otherwise
// the input may also stop at a chunk boundary. Decoding stops after the end
// chunk; Consumed tells how many bytes were used. Layout spans are added with
// base offset `base`.
func DecodeLZMA2(in []byte, dictSize uint32, requireEnd bool, lay *Layout, base, block, stream int) (*LZMA2Result, error) {
	res := &LZMA2Result{}
	if dictSize < 4096 {
		dictSize = 4096
	}
	w := &window{dictSize: dictSize}
	var m *model
	needDict, needProps := true, true
	pos := 0
	for {
		if pos >= len(in) {
			if requireEnd {
				res.Out = w.out
				res.Consumed = pos
				return res, ErrTruncated
			}
			break
		}
		c := in[pos]
		kind, err := ctrlKind(c)
		if err != nil {
			res.Out = w.out
			return res, err
		}
		ck := Chunk{Kind: kind, Ctrl: c, Off: pos}
		if kind == CkEnd {
			lay.add("ck_end", base+pos, 1, block, stream)
			ck.HdrLen = 1
			res.Chunks = append(res.Chunks, ck)
			pos++
			res.Ended = true
			break
		}
		fail := func(e error) (*LZMA2Result, error) {
			res.Out = w.out
			res.Consumed = pos
			return res, e
		}
		if kind == CkRawD || kind == CkLRND {
			needDict = false
			if kind == CkRawD {
				needProps = true
			}
			w.dictStart = len(w.out)
		} else if needDict {
			return fail(errors.New("ref: first chunk does not reset the dictionary"))
		}
		if kind == CkRawD || kind == CkRaw {
			if pos+3 > len(in) {
				return fail(ErrTruncated)
			}
			n := int(in[pos+1])<<8 + int(in[pos+2]) + 1
			ck.HdrLen, ck.USize, ck.CSize = 3, n, n
			lay.add("ck_ctrl", base+pos, 1, block, stream)
			lay.add("ck_usize", base+pos+1, 2, block, stream)
			if pos+3+n > len(in) {
				w.out = append(w.out, in[pos+3:]...)
				return fail(ErrTruncated)
			}
			lay.add("ck_raw", base+pos+3, n, block, stream)
			w.out = append(w.out, in[pos+3:pos+3+n]...)
			pos += 3 + n
			res.Chunks = append(res.Chunks, ck)
			continue
		}
		// LZMA chunk
		hl := 5
		if kind >= CkLRN {
			hl = 6
		}
		if pos+hl > len(in) {
			return fail(ErrTruncated)
		}
		us := int(c&0x1F)<<16 + int(in[pos+1])<<8 + int(in[pos+2]) + 1
		cs := int(in[pos+3])<<8 + int(in[pos+4]) + 1
		ck.HdrLen, ck.USize, ck.CSize = hl, us, cs
		lay.add("ck_ctrl", base+pos, 1, block, stream)
		lay.add("ck_usize", base+pos+1, 2, block, stream)
		lay.add("ck_csize", base+pos+3, 2, block, stream)
		if kind >= CkLRN {
			p, err := PropsFromCode(in[pos+5])
			if err != nil {
				return fail(err)
			}
			if p.LC+p.LP > 4 {
				return fail(errors.New("ref: lc+lp > 4 in LZMA2"))
			}
			lay.add("ck_props", base+pos+5, 1, block, stream)
			if m == nil {
				m = newModel(p)
			} else {
				m.setProps(p)
			}
			needProps = false
		} else {
			if needProps {
				return fail(errors.New("ref: LZMA chunk without properties"))
			}
			if kind == CkLR {
				m.reset()
			}
		}
		ck.Props = m.p
		if pos+hl+cs > len(in) {
			return fail(ErrTruncated)
		}
		payload := in[pos+hl : pos+hl+cs]
		lay.add("ck_payload", base+pos+hl, cs, block, stream)
		rd, err := newRdec(payload)
		if err != nil {
			return fail(err)
		}
		d := &lzDec{m: m, w: w, rd: rd}
		if _, err := d.decode(int64(us), false); err != nil {
			return fail(err)
		}
		ck.Stats = d.st
		res.Stats.add(&d.st)
		pos += hl + cs
		res.Chunks = append(res.Chunks, ck)
	}
	res.Out = w.out
	res.Consumed = pos
	return res, nil
}

// ChunkSpec describes one chunk for the LZMA2 generator.
type ChunkSpec struct {
	Kind  int
	Props Props // for LRN / LRND
	Ops   []Op  // for LZMA chunks
	Raw   []byte
}

// EncodeLZMA2 turns chunk specifications into an LZMA2 byte sequence. It
// returns the stream (without forcing an end chunk: include a CkEnd spec)
// and the plaintext produced. Chunk specs must be a legal sequence; ops must
// be legal in their state. An LZMA chunk whose encoding would exceed the
// chunk limits yields an error.
func EncodeLZMA2(specs []ChunkSpec, dictSize uint32) (stream, plain []byte, err error) {
	if dictSize < 4096 {
		dictSize = 4096
	}
	w := &window{dictSize: dictSize}
	var m *model
	for i, sp := range specs {
		switch sp.Kind {
		case CkEnd:
			stream = append(stream, 0)
		case CkRawD, CkRaw:
			n := len(sp.Raw)
			if n < 1 || n > 1<<16 {
				return nil, nil, fmt.Errorf("ref: raw chunk %d size %d", i, n)
			}
			if sp.Kind == CkRawD {
				w.dictStart = len(w.out)
				stream = append(stream, 1)
			} else {
				stream = append(stream, 2)
			}
			stream = append(stream, byte((n-1)>>8), byte(n-1))
			stream = append(stream, sp.Raw...)
			w.out = append(w.out, sp.Raw...)
		default:
			if sp.Kind == CkLRND {
				w.dictStart = len(w.out)
			}
			if sp.Kind >= CkLRN {
				if m == nil {
					m = newModel(sp.Props)
				} else {
					m.setProps(sp.Props)
				}
			} else {
				if m == nil {
					// illegal sequence requested by the caller (chunk
					// discipline tests): encode with some model
					m = newModel(sp.Props)
				}
				if sp.Kind == CkLR {
					m.reset()
				}
			}
			e := &lzEnc{m: m, w: w, re: newRenc()}
			start := len(w.out)
			for _, op := range sp.Ops {
				if err := e.encodeOp(op); err != nil {
					return nil, nil, err
				}
			}
			us := len(w.out) - start
			payload := e.re.flush()
			cs := len(payload)
			if us < 1 || us > 1<<21 || cs > 1<<16 {
				return nil, nil, fmt.Errorf("ref: chunk %d out of limits us=%d cs=%d", i, us, cs)
			}
			ctrl := byte(0x80) | byte(sp.Kind-CkL)<<5 | byte((us-1)>>16)
			stream = append(stream, ctrl, byte((us-1)>>8), byte(us-1), byte((cs-1)>>8), byte(cs-1))
			if sp.Kind >= CkLRN {
				stream = append(stream, sp.Props.Code())
			}
			stream = append(stream, payload...)
		}
	}
	return stream, w.out, nil
}

// LZMA2Sim tracks the window and coder state while a generator draws
// operations, so that the generator can choose legal distances. It applies
// operations without encoding them.
type LZMA2Sim struct {
	w         window
	Rep       [4]uint32
	State     int
	HaveModel bool
}

// NewSim returns a simulator for a given dictionary size.
func NewSim(dictSize uint32) *LZMA2Sim {
	if dictSize < 4096 {
		dictSize = 4096
	}
	return &LZMA2Sim{w: window{dictSize: dictSize}}
}

// Avail returns the bytes a match may reach back (bounded by the dictionary).
func (s *LZMA2Sim) Avail() int {
	a := s.w.avail()
	if int64(a) > int64(s.w.dictSize) {
		a = int(s.w.dictSize)
	}
	return a
}

// Total returns the plaintext length so far.
func (s *LZMA2Sim) Total() int { return len(s.w.out) }

// Out returns the plaintext so far.
func (s *LZMA2Sim) Out() []byte { return s.w.out }

// DictReset marks a dictionary reset.
func (s *LZMA2Sim) DictReset() { s.w.dictStart = len(s.w.out) }

// StateReset resets reps and state.
func (s *LZMA2Sim) StateReset() { s.Rep = [4]uint32{}; s.State = 0; s.HaveModel = true }

// Raw appends raw bytes.
func (s *LZMA2Sim) Raw(p []byte) { s.w.out = append(s.w.out, p...) }

// RepOK tells whether rep index i currently is a valid distance.
func (s *LZMA2Sim) RepOK(i int) bool { return s.w.avail() > 0 && s.w.distOK(s.Rep[i]) }

// Apply applies an op; it returns false (and does nothing) if it is illegal.
func (s *LZMA2Sim) Apply(op Op) bool {
	switch op.Kind {
	case OpLit:
		if s.State >= 7 && !s.w.distOK(s.Rep[0]) {
			return false
		}
		s.w.out = append(s.w.out, op.Byte)
		s.State = stLit(s.State)
	case OpShortRep:
		if !s.RepOK(0) {
			return false
		}
		s.w.out = append(s.w.out, s.w.byteAt(s.Rep[0]))
		s.State = stShortRep(s.State)
	case OpRep:
		if op.Len < 2 || op.Len > MaxMatchLen || !s.RepOK(op.Rep) {
			return false
		}
		d := s.Rep[op.Rep]
		copy(s.Rep[1:op.Rep+1], s.Rep[0:op.Rep])
		s.Rep[0] = d
		s.copy(op.Len)
		s.State = stRep(s.State)
	case OpMatch:
		if op.Len < 2 || op.Len > MaxMatchLen || !s.w.distOK(op.Dist) {
			return false
		}
		s.Rep[3], s.Rep[2], s.Rep[1], s.Rep[0] = s.Rep[2], s.Rep[1], s.Rep[0], op.Dist
		s.copy(op.Len)
		s.State = stMatch(s.State)
	}
	return true
}

func (s *LZMA2Sim) copy(n int) {
	dist := int(s.Rep[0]) + 1
	for i := 0; i < n; i++ {
		s.w.out = append(s.w.out, s.w.out[len(s.w.out)-dist])
	}
}
