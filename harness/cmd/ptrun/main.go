// Command ptrun runs a program under ptrace and numbers the system calls that
// touch the scenario directory (paths relative to the working directory or
// below it) or a descriptor opened there. It can list them, kill the program
// right before the k-th of them, or make the k-th fail with a chosen errno.
//
//	ptrun -mode list|kill|fail|signal -k N -errno E -signal S -dir DIR -out result.json [-stdout] -- prog args...
//
// It is written for the C10 check (gxz never loses data) and follows all
// threads of the traced Go program. linux/amd64 only.
package main

import (
	"encoding/json"
	"flag"
	"fmt"
	"os"
	"os/exec"
	"runtime"
	"strings"
	"syscall"
)

const (
	sysRead       = 0
	sysWrite      = 1
	sysOpen       = 2
	sysClose      = 3
	sysStat       = 4
	sysFstat      = 5
	sysLstat      = 6
	sysPread      = 17
	sysPwrite     = 18
	sysFsync      = 74
	sysFdatasync  = 75
	sysFtruncate  = 77
	sysRename     = 82
	sysRmdir      = 84
	sysUnlink     = 87
	sysChmod      = 90
	sysFchmod     = 91
	sysOpenat     = 257
	sysNewfstatat = 262
	sysUnlinkat   = 263
	sysRenameat   = 264
	sysFchmodat   = 268
	sysRenameat2  = 316
	sysStatx      = 332

	ptraceOExitKill = 0x100000
)

var names = map[uint64]string{sysRead: "read", sysWrite: "write", sysOpen: "open", sysClose: "close", sysStat: "stat", sysFstat: "fstat", sysLstat: "lstat",
	sysPread: "pread", sysPwrite: "pwrite", sysFsync: "fsync", sysFdatasync: "fdatasync", sysFtruncate: "ftruncate", sysRename: "rename", sysRmdir: "rmdir", sysUnlink: "unlink",
	sysChmod: "chmod", sysFchmod: "fchmod", sysOpenat: "openat", sysNewfstatat: "newfstatat", sysUnlinkat: "unlinkat", sysRenameat: "renameat", sysFchmodat: "fchmodat",
	sysRenameat2: "renameat2", sysStatx: "statx"}

// Call is one relevant system call.
type Call struct {
	K     int    `json:"k"`
	Name  string `json:"name"`
	FD    int    `json:"fd"`
	Path  string `json:"path,omitempty"`
	Path2 string `json:"path2,omitempty"`
	Flags uint64 `json:"flags,omitempty"`
	Len   uint64 `json:"len,omitempty"`
	Mut   bool   `json:"mut"`
	Ret   int64  `json:"ret"`
}

// Result is written to -out.
type Result struct {
	Calls    []Call `json:"calls"`
	Exit     int    `json:"exit"`
	Signaled bool   `json:"signaled"`
	Fired    bool   `json:"fired"`
	Error    string `json:"error,omitempty"`
	// Foreign lists removals / renames of absolute paths outside the scenario
	// directory that the program attempted; the tracer does not let them
	// happen (the call fails with EPERM).
	Foreign []string `json:"foreign,omitempty"`
}

func readString(tid int, addr uint64) string {
	if addr == 0 {
		return ""
	}
	var out []byte
	buf := make([]byte, 8)
	for len(out) < 4096 {
		n, err := syscall.PtracePeekData(tid, uintptr(addr)+uintptr(len(out)), buf)
		if err != nil || n == 0 {
			break
		}
		for _, b := range buf[:n] {
			if b == 0 {
				return string(out)
			}
			out = append(out, b)
		}
	}
	return string(out)
}

func main() {
	mode := flag.String("mode", "list", "list | kill | fail | signal")
	signo := flag.Int("signal", int(syscall.SIGINT), "signal sent to the process before system call k (mode signal)")
	k := flag.Int("k", -1, "index of the system call to kill before / to fail")
	errno := flag.Int("errno", int(syscall.EIO), "errno for mode fail")
	dir := flag.String("dir", "", "scenario directory (working directory of the program)")
	out := flag.String("out", "", "result file (JSON)")
	trackStdout := flag.Bool("stdout", false, "treat writes to fd 1 as relevant")
	stdoutFile := flag.String("stdout-file", "", "file that receives the program's standard output")
	flag.Parse()
	args := flag.Args()
	res := Result{Exit: -1}
	finish := func() {
		b, _ := json.Marshal(res)
		if *out != "" {
			os.WriteFile(*out, b, 0o644)
		} else {
			os.Stdout.Write(append(b, '\n'))
		}
	}
	if len(args) == 0 {
		res.Error = "no program"
		finish()
		os.Exit(2)
	}
	runtime.LockOSThread()
	cmd := exec.Command(args[0], args[1:]...)
	cmd.Dir = *dir
	cmd.SysProcAttr = &syscall.SysProcAttr{Ptrace: true}
	cmd.Stderr = os.Stderr
	if *stdoutFile != "" {
		f, err := os.Create(*stdoutFile)
		if err != nil {
			res.Error = err.Error()
			finish()
			os.Exit(2)
		}
		defer f.Close()
		cmd.Stdout = f
	}
	if err := cmd.Start(); err != nil {
		res.Error = "start: " + err.Error()
		finish()
		os.Exit(2)
	}
	main := cmd.Process.Pid
	var ws syscall.WaitStatus
	if _, err := syscall.Wait4(main, &ws, 0, nil); err != nil {
		res.Error = "wait: " + err.Error()
		finish()
		os.Exit(2)
	}
	opts := syscall.PTRACE_O_TRACESYSGOOD | syscall.PTRACE_O_TRACECLONE | syscall.PTRACE_O_TRACEFORK | syscall.PTRACE_O_TRACEVFORK | ptraceOExitKill
	if err := syscall.PtraceSetOptions(main, opts); err != nil {
		res.Error = "setoptions: " + err.Error()
		syscall.Kill(main, syscall.SIGKILL)
		finish()
		os.Exit(2)
	}
	syscall.PtraceSyscall(main, 0)

	inSys := map[int]bool{}
	pendingRet := map[int]*int64{} // tid -> value to force into rax at exit
	pendingCall := map[int]int{}   // tid -> index into res.Calls
	tracked := map[int]bool{}
	alive := map[int]bool{main: true}
	relevantPath := func(p string) bool {
		if p == "" {
			return false
		}
		if !strings.HasPrefix(p, "/") {
			return true
		}
		return *dir != "" && strings.HasPrefix(p, *dir+"/")
	}
	killed := false
	for len(alive) > 0 {
		tid, err := syscall.Wait4(-1, &ws, syscall.WALL, nil)
		if err != nil {
			if err == syscall.EINTR {
				continue
			}
			break
		}
		if ws.Exited() || ws.Signaled() {
			delete(alive, tid)
			if tid == main {
				if ws.Exited() {
					res.Exit = ws.ExitStatus()
				} else {
					res.Signaled = true
					res.Exit = 128 + int(ws.Signal())
				}
			}
			continue
		}
		if !ws.Stopped() {
			continue
		}
		alive[tid] = true
		sig := ws.StopSignal()
		if sig == syscall.SIGTRAP|0x80 {
			var regs syscall.PtraceRegs
			if err := syscall.PtraceGetRegs(tid, &regs); err != nil {
				syscall.PtraceSyscall(tid, 0)
				continue
			}
			if !inSys[tid] {
				// syscall entry
				inSys[tid] = true
				nr := regs.Orig_rax
				c := Call{FD: -1}
				rel := false
				switch nr {
				case sysRead, sysWrite, sysPread, sysPwrite, sysClose, sysFstat, sysFsync, sysFdatasync, sysFchmod, sysFtruncate:
					fd := int(int32(regs.Rdi))
					if tracked[fd] || (*trackStdout && fd == 1 && (nr == sysWrite || nr == sysPwrite)) {
						rel = true
						c.FD = fd
						if nr == sysRead || nr == sysWrite || nr == sysPread || nr == sysPwrite {
							c.Len = regs.Rdx
						}
						c.Mut = nr == sysWrite || nr == sysPwrite || nr == sysFchmod || nr == sysFtruncate
					}
				case sysOpen, sysStat, sysLstat, sysUnlink, sysRmdir, sysChmod:
					c.Path = readString(tid, regs.Rdi)
					rel = relevantPath(c.Path)
					if nr == sysOpen {
						c.Flags = regs.Rsi
						c.Mut = regs.Rsi&(syscall.O_CREAT|syscall.O_TRUNC) != 0
					}
					c.Mut = c.Mut || nr == sysUnlink || nr == sysRmdir || nr == sysChmod
				case sysRename:
					c.Path, c.Path2 = readString(tid, regs.Rdi), readString(tid, regs.Rsi)
					rel = relevantPath(c.Path) || relevantPath(c.Path2)
					c.Mut = true
				case sysOpenat:
					c.Path = readString(tid, regs.Rsi)
					c.Flags = regs.Rdx
					rel = relevantPath(c.Path)
					c.Mut = regs.Rdx&(syscall.O_CREAT|syscall.O_TRUNC) != 0
				case sysNewfstatat, sysStatx:
					c.Path = readString(tid, regs.Rsi)
					fd := int(int32(regs.Rdi))
					if c.Path == "" {
						rel = tracked[fd]
						c.FD = fd
					} else {
						rel = relevantPath(c.Path)
					}
				case sysUnlinkat, sysFchmodat:
					c.Path = readString(tid, regs.Rsi)
					rel = relevantPath(c.Path)
					c.Mut = true
				case sysRenameat, sysRenameat2:
					c.Path, c.Path2 = readString(tid, regs.Rsi), readString(tid, regs.R10)
					rel = relevantPath(c.Path) || relevantPath(c.Path2)
					c.Mut = true
				}
				if rel {
					c.K = len(res.Calls)
					c.Name = names[nr]
					res.Calls = append(res.Calls, c)
					pendingCall[tid] = c.K
					if c.K == *k && !killed {
						switch *mode {
						case "kill":
							regs.Orig_rax = ^uint64(0)
							syscall.PtraceSetRegs(tid, &regs)
							res.Fired = true
							killed = true
							syscall.Kill(main, syscall.SIGKILL)
						case "signal":
							// the call itself proceeds; the signal is delivered to
							// the process (the tracer passes it on at the
							// signal-delivery stop)
							res.Fired = true
							killed = true
							syscall.Kill(main, syscall.Signal(*signo))
						case "fail":
							regs.Orig_rax = ^uint64(0)
							syscall.PtraceSetRegs(tid, &regs)
							v := -int64(*errno)
							pendingRet[tid] = &v
							res.Fired = true
						}
					}
				} else {
					delete(pendingCall, tid)
					// never let the traced program remove or rename something
					// outside the scenario directory (e.g. /dev/stdout)
					foreign := ""
					switch nr {
					case sysUnlink, sysRmdir, sysUnlinkat:
						if strings.HasPrefix(c.Path, "/") {
							foreign = names[nr] + " " + c.Path
						}
					case sysRename, sysRenameat, sysRenameat2:
						if strings.HasPrefix(c.Path, "/") || strings.HasPrefix(c.Path2, "/") {
							foreign = names[nr] + " " + c.Path + " " + c.Path2
						}
					}
					if foreign != "" {
						res.Foreign = append(res.Foreign, foreign)
						regs.Orig_rax = ^uint64(0)
						syscall.PtraceSetRegs(tid, &regs)
						v := -int64(syscall.EPERM)
						pendingRet[tid] = &v
					}
				}
			} else {
				// syscall exit
				inSys[tid] = false
				if v := pendingRet[tid]; v != nil {
					regs.Rax = uint64(*v)
					syscall.PtraceSetRegs(tid, &regs)
					delete(pendingRet, tid)
				}
				if idx, ok := pendingCall[tid]; ok {
					ret := int64(regs.Rax)
					res.Calls[idx].Ret = ret
					nm := res.Calls[idx].Name
					if (nm == "openat" || nm == "open") && ret >= 0 {
						tracked[int(ret)] = true
					}
					if nm == "close" && ret == 0 {
						delete(tracked, res.Calls[idx].FD)
					}
					delete(pendingCall, tid)
				}
			}
			syscall.PtraceSyscall(tid, 0)
			continue
		}
		if sig == syscall.SIGTRAP {
			// ptrace event stop (clone / fork / exec)
			syscall.PtraceSyscall(tid, 0)
			continue
		}
		if sig == syscall.SIGSTOP && !inSys[tid] {
			// initial stop of a new thread
			syscall.PtraceSyscall(tid, 0)
			continue
		}
		// deliver other signals
		syscall.PtraceSyscall(tid, int(sig))
	}
	finish()
	fmt.Fprint(os.Stderr, "")
}
