// Package gen holds the rapid generators shared by the checks: data recipes
// (bulk data as a pure function of a few drawn numbers), writer
// configurations, partitions of the input into Write calls.
package gen

import (
	"fmt"

	"pgregory.net/rapid"
)

// Seg is one segment of a data recipe.
type Seg struct {
	Kind string `json:"kind"` // zeros run random text counter copyback mix farmix
	Len  int    `json:"len"`
	B    byte   `json:"b,omitempty"`
	Seed uint64 `json:"seed,omitempty"`
	K    int    `json:"k,omitempty"`    // alphabet size for text
	Dist int    `json:"dist,omitempty"` // for copyback
}

// Recipe describes bulk data.
type Recipe []Seg

// PRNG is a small deterministic generator (splitmix64). With a tape it
// returns the tape's bytes first (eight per call, little endian) and falls
// back to the generator when the tape is used up: this lets a coverage-guided
// fuzzer own every decision of the specification-driven stream generator.
type PRNG struct {
	s    uint64
	tape []byte
}

// NewTapePRNG returns a generator that replays tape before seed takes over.
func NewTapePRNG(seed uint64, tape []byte) *PRNG { return &PRNG{s: seed, tape: tape} }

// NewPRNG returns a generator for a seed.
func NewPRNG(seed uint64) *PRNG { return &PRNG{s: seed} }

// Next returns the next 64 bits.
func (p *PRNG) Next() uint64 {
	if len(p.tape) > 0 {
		var b [8]byte
		n := copy(b[:], p.tape)
		p.tape = p.tape[n:]
		return uint64(b[0]) | uint64(b[1])<<8 | uint64(b[2])<<16 | uint64(b[3])<<24 | uint64(b[4])<<32 | uint64(b[5])<<40 | uint64(b[6])<<48 | uint64(b[7])<<56
	}
	p.s += 0x9E3779B97F4A7C15
	z := p.s
	z = (z ^ (z >> 30)) * 0xBF58476D1CE4E5B9
	z = (z ^ (z >> 27)) * 0x94D049BB133111EB
	return z ^ (z >> 31)
}

// Fill fills b with random bytes.
func (p *PRNG) Fill(b []byte) {
	for i := 0; i < len(b); {
		v := p.Next()
		for j := 0; j < 8 && i < len(b); j++ {
			b[i] = byte(v)
			v >>= 8
			i++
		}
	}
}

// Len returns the total length.
func (r Recipe) Len() int {
	n := 0
	for _, s := range r {
		n += s.Len
	}
	return n
}

// Expand produces the bytes.
func (r Recipe) Expand() []byte {
	out := make([]byte, 0, r.Len())
	for _, s := range r {
		switch s.Kind {
		case "zeros":
			out = append(out, make([]byte, s.Len)...)
		case "run":
			for i := 0; i < s.Len; i++ {
				out = append(out, s.B)
			}
		case "random":
			b := make([]byte, s.Len)
			NewPRNG(s.Seed).Fill(b)
			if s.K >= 2 && s.K <= 255 {
				// uniform over K of the 256 byte values: almost incompressible
				// (a compressed chunk gains a fraction of a percent or loses)
				for i := range b {
					b[i] = byte(int(b[i]) * s.K >> 8)
				}
			}
			out = append(out, b...)
		case "text":
			k := s.K
			if k < 1 {
				k = 1
			}
			p := NewPRNG(s.Seed)
			// words from a small alphabet with repeats: compressible
			for n := 0; n < s.Len; {
				v := p.Next()
				wl := 1 + int(v%7)
				v >>= 8
				for j := 0; j < wl && n < s.Len; j++ {
					out = append(out, 'a'+byte(v%uint64(k)))
					v /= uint64(k) + 1
					n++
				}
				if n < s.Len {
					out = append(out, ' ')
					n++
				}
			}
		case "counter":
			for i := 0; i < s.Len; i++ {
				out = append(out, s.B+byte(i))
			}
		case "farmix":
			// a base block of random bytes (K KiB, stored uncompressed by the
			// writer), then short random literal runs interleaved with copies
			// of random length taken from anywhere in the base block: matches
			// with large, ever-changing distances and lengths - the most
			// expensive operations the coder has - next to every chunk limit
			p := NewPRNG(s.Seed)
			base := s.K << 10
			if base > s.Len {
				base = s.Len
			}
			start := len(out)
			blk := make([]byte, base)
			p.Fill(blk)
			out = append(out, blk...)
			for len(out)-start < s.Len {
				v := p.Next()
				for l := 1 + int(v%12); l > 0 && len(out)-start < s.Len; l-- {
					out = append(out, byte(p.Next()>>17))
				}
				m := 2 + int((v>>16)%60)
				if (v>>32)%4 == 0 {
					m = 18 + int((v>>36)%256)
				}
				src := start + int((v>>20)%uint64(base-300+1))
				for i := 0; i < m && len(out)-start < s.Len; i++ {
					out = append(out, out[src+i])
				}
			}
		case "mix":
			// many short literal runs interleaved with copies of random length
			// and distance (what binary data looks like to the encoder): every
			// kind of operation occurs next to every chunk / block / buffer limit
			p := NewPRNG(s.Seed)
			k := s.K
			if k < 1 {
				k = 40
			}
			start := len(out)
			for len(out)-start < s.Len {
				v := p.Next()
				for l := 1 + int(v%uint64(k)); l > 0 && len(out)-start < s.Len; l-- {
					out = append(out, byte(p.Next()>>17))
				}
				m := 2 + int((v>>16)%39)
				switch (v >> 32) % 8 {
				case 0:
					m = 273
				case 1:
					m = 18 + int((v>>36)%256)
				}
				maxd := len(out)
				if s.Dist > 0 && maxd > s.Dist {
					maxd = s.Dist
				}
				if maxd < 1 {
					continue
				}
				d := 1 + int((v>>44)%uint64(maxd))
				if (v>>40)%4 == 0 {
					d = 1 + int((v>>44)%uint64(min(maxd, 300))) // near distances
				}
				for ; m > 0 && len(out)-start < s.Len; m-- {
					out = append(out, out[len(out)-d])
				}
			}
		case "copyback":
			d := s.Dist
			if d < 1 {
				d = 1
			}
			for i := 0; i < s.Len; i++ {
				if len(out) >= d {
					out = append(out, out[len(out)-d])
				} else {
					out = append(out, byte(i))
				}
			}
		default:
			panic("gen: unknown segment kind " + s.Kind)
		}
	}
	return out
}

func (r Recipe) String() string {
	s := ""
	for i, g := range r {
		if i > 0 {
			s += "+"
		}
		s += fmt.Sprintf("%s(%d)", g.Kind, g.Len)
	}
	return s
}

// RunWork estimates the cost of the recipe for the BinaryTree matcher, which
// degenerates to a list on runs: sum over run-like segments of len^2.
func (r Recipe) RunWork(dictCap int) int64 {
	var w int64
	for _, s := range r {
		switch s.Kind {
		case "zeros", "run":
			m := int64(s.Len)
			if m > int64(dictCap) {
				m = int64(dictCap)
			}
			w += int64(s.Len) * m
		case "copyback":
			if s.Dist < 16 {
				m := int64(s.Len)
				if m > int64(dictCap) {
					m = int64(dictCap)
				}
				w += int64(s.Len) * m / int64(s.Dist)
			}
		case "text":
			if s.K <= 1 {
				w += int64(s.Len) * int64(s.Len) / 4
			}
		}
	}
	return w
}

// LenClass draws a length from the named size classes.
func LenClass(t *rapid.T, label string, classes ...string) int {
	c := rapid.SampledFrom(classes).Draw(t, label+"_class")
	switch c {
	case "zero":
		return 0
	case "tiny":
		return rapid.IntRange(0, 40).Draw(t, label)
	case "small":
		return rapid.IntRange(41, 4096).Draw(t, label)
	case "medium":
		return rapid.IntRange(4097, 40000).Draw(t, label)
	case "k64":
		return rapid.IntRange(65536-300, 65536+300).Draw(t, label)
	case "k128":
		return rapid.IntRange(100000, 200000).Draw(t, label)
	case "m2":
		return rapid.IntRange(2097152-300, 2097152+300).Draw(t, label)
	case "m1":
		return rapid.IntRange(600000, 1200000).Draw(t, label)
	}
	panic("gen: unknown class " + c)
}

// SegOf draws one segment of the given length.
func SegOf(t *rapid.T, n int, sofar int, kinds []string) Seg {
	k := rapid.SampledFrom(kinds).Draw(t, "segkind")
	s := Seg{Kind: k, Len: n}
	switch k {
	case "run":
		s.B = rapid.Byte().Draw(t, "b")
	case "random":
		s.Seed = rapid.Uint64().Draw(t, "seed")
		if rapid.IntRange(0, 3).Draw(t, "nearinc") == 0 {
			s.K = rapid.SampledFrom([]int{128, 200, 216, 224, 228, 232, 234, 236, 238, 240, 242, 244, 248, 252, 255}).Draw(t, "alphabet")
		}
	case "text":
		s.Seed = rapid.Uint64().Draw(t, "seed")
		s.K = rapid.SampledFrom([]int{1, 2, 4, 26}).Draw(t, "k")
	case "counter":
		s.B = rapid.Byte().Draw(t, "b")
	case "mix":
		s.Seed = rapid.Uint64().Draw(t, "seed")
		s.K = rapid.SampledFrom([]int{3, 40, 40, 200}).Draw(t, "mixk")
		s.Dist = rapid.SampledFrom([]int{0, 0, 4096, 65536}).Draw(t, "mixdist")
	case "copyback":
		max := sofar
		if max < 1 {
			max = 1
		}
		s.Dist = rapid.IntRange(1, max).Draw(t, "dist")
		// distances at the boundaries of the distance coding: 2^k-1, 2^k, 2^k+1
		// (slot changes, 64 KiB, 16 MiB ...)
		if max >= 4 && rapid.IntRange(0, 2).Draw(t, "distpow2") == 0 {
			k := rapid.IntRange(1, 24).Draw(t, "distk")
			for (1<<k)+1 > max {
				k--
			}
			s.Dist = 1<<k + rapid.IntRange(-1, 1).Draw(t, "distpm")
		}
		// lengths at the boundaries of the length coding (2..9 low, 10..17 mid,
		// 18..273 high; 256-258 are the first values that need nine bits)
		if n >= 300 && rapid.IntRange(0, 5).Draw(t, "lenedge") == 0 {
			s.Len = rapid.SampledFrom([]int{2, 3, 9, 10, 11, 17, 18, 19, 255, 256, 257, 258, 259, 260, 261, 272, 273, 274, 275}).Draw(t, "lenval")
		}
		// repeats whose length leaves 0..3 bytes after whole maximum-length
		// matches (273): the encoder has to finish with a match of the minimum
		// length or with literals coded against the match byte
		if n > 300 && rapid.IntRange(0, 2).Draw(t, "len273") == 0 {
			s.Len = n/273*273 + rapid.IntRange(0, 3).Draw(t, "rem273")
		}
	}
	return s
}

// EdgeRecipe draws data whose only repeat lies exactly at the edge of a
// dictionary of dictCap bytes: random bytes, then a copy of the bytes that
// lie dictCap+d back (d in -3..3; for d > 0 the repeat is just out of reach and
// must NOT be coded as a match), then a short tail. With extra = 0 the copy
// refers to the very first bytes of the stream.
func EdgeRecipe(t *rapid.T, dictCap int) Recipe {
	d := rapid.IntRange(-3, 3).Draw(t, "edge_d")
	extra := rapid.SampledFrom([]int{0, 0, 0, 1, 2, 3, 100}).Draw(t, "edge_extra")
	l := rapid.SampledFrom([]int{4, 5, 8, 40, 273, 300}).Draw(t, "edge_len")
	return Recipe{
		{Kind: "random", Len: dictCap + d + extra, Seed: rapid.Uint64().Draw(t, "edge_seed")},
		{Kind: "copyback", Dist: dictCap + d, Len: l},
		{Kind: "text", K: 4, Len: rapid.IntRange(0, 200).Draw(t, "edge_tail"), Seed: 5},
	}
}

// RepChainRecipe draws incompressible data that brings an LZMA2 chunk close
// to its 64 KiB compressed-size limit, followed by a chain of maximum-length
// copies that cycle through four distances (rep matches that cost almost no
// output), then a tail: the encoder has to close the chunk while operations
// that emit no bytes are pending.
func RepChainRecipe(t *rapid.T) Recipe {
	r := Recipe{{Kind: "random", Len: rapid.IntRange(64450, 64750).Draw(t, "rc_prefix"), Seed: rapid.Uint64().Draw(t, "rc_seed")}}
	var d [4]int
	for i := range d {
		d[i] = rapid.IntRange(300+i*1000, 1200+i*1000).Draw(t, "rc_dist")
	}
	n := rapid.IntRange(6, 40).Draw(t, "rc_n")
	for i := 0; i < n; i++ {
		r = append(r, Seg{Kind: "copyback", Dist: d[i%4], Len: 273})
	}
	return append(r, Seg{Kind: "text", K: 4, Len: rapid.IntRange(0, 3000).Draw(t, "rc_tail"), Seed: 9})
}

// AllKinds lists the segment kinds.
var AllKinds = []string{"zeros", "run", "random", "text", "counter", "copyback", "mix", "mix"}

// DrawRecipe draws 0..maxSegs segments with lengths from classes, total at
// most maxTotal.
func DrawRecipe(t *rapid.T, maxSegs, maxTotal int, classes ...string) Recipe {
	n := rapid.IntRange(0, maxSegs).Draw(t, "nsegs")
	var r Recipe
	total := 0
	for i := 0; i < n; i++ {
		l := LenClass(t, "seglen", classes...)
		if total+l > maxTotal {
			l = maxTotal - total
		}
		if l <= 0 {
			continue
		}
		r = append(r, SegOf(t, l, total, AllKinds))
		total += l
	}
	return r
}
