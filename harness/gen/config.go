package gen

import (
	"fmt"
	"github.com/ulikunitz/xz"
	"github.com/ulikunitz/xz/lzma"
	"pgregory.net/rapid"
)

// Cfg is the JSON-serialisable writer configuration shared by the xz, LZMA2
// and classic LZMA checks.
type Cfg struct {
	LC, LP, PB int
	DefProps   bool  // leave Properties nil (library default 3/0/2)
	DictCap    int   // 0 = library default (8 MiB)
	BufSize    int   // 0 = library default (4096)
	BlockSize  int64 // xz only; 0 = default (unlimited)
	CheckSum   byte  // xz only
	NoCheckSum bool  // xz only
	Matcher    int   // 0 HashTable4, 1 BinaryTree
	// classic LZMA only
	SizeInHeader bool
	Size         int64
	EOSMarker    bool
	// Odd names the one setting DrawOdd pushed outside (or to the edge of)
	// the documented range; the library decides whether it accepts it
	Odd string `json:",omitempty"`
}

func (c Cfg) props() *lzma.Properties {
	if c.DefProps {
		return nil
	}
	return &lzma.Properties{LC: c.LC, LP: c.LP, PB: c.PB}
}

// EffProps returns the lc/lp/pb actually in force.
func (c Cfg) EffProps() (int, int, int) {
	if c.DefProps {
		return 3, 0, 2
	}
	return c.LC, c.LP, c.PB
}

// EffDict returns the dictionary capacity in force.
func (c Cfg) EffDict() int {
	if c.DictCap == 0 {
		return 8 << 20
	}
	if c.DictCap < 4096 {
		// an odd capacity (DrawOdd) the library chose to accept: no decoder
		// can be asked for less than the format's minimum window
		return 4096
	}
	return c.DictCap
}

// EffBuf returns the look-ahead size in force.
func (c Cfg) EffBuf() int {
	if c.BufSize == 0 {
		return 4096
	}
	return c.BufSize
}

// EffCheck returns the check id in force for xz.
func (c Cfg) EffCheck() byte {
	if c.NoCheckSum {
		return 0
	}
	if c.CheckSum == 0 {
		return xz.CRC64
	}
	return c.CheckSum
}

// EffBlock returns the block size in force.
func (c Cfg) EffBlock() int64 {
	if c.BlockSize == 0 {
		return 1<<63 - 1
	}
	return c.BlockSize
}

// XZ converts to the library type.
func (c Cfg) XZ() xz.WriterConfig {
	return xz.WriterConfig{Properties: c.props(), DictCap: c.DictCap, BufSize: c.BufSize, BlockSize: c.BlockSize,
		CheckSum: c.CheckSum, NoCheckSum: c.NoCheckSum, Matcher: lzma.MatchAlgorithm(c.Matcher)}
}

// W2 converts to the LZMA2 writer configuration.
func (c Cfg) W2() lzma.Writer2Config {
	return lzma.Writer2Config{Properties: c.props(), DictCap: c.DictCap, BufSize: c.BufSize, Matcher: lzma.MatchAlgorithm(c.Matcher)}
}

// W1 converts to the classic LZMA writer configuration.
func (c Cfg) W1() lzma.WriterConfig {
	return lzma.WriterConfig{Properties: c.props(), DictCap: c.DictCap, BufSize: c.BufSize, Matcher: lzma.MatchAlgorithm(c.Matcher),
		SizeInHeader: c.SizeInHeader, Size: c.Size, EOSMarker: c.EOSMarker}
}

// DrawProps draws lc/lp/pb; lzma2 restricts to lc+lp <= 4.
func DrawProps(t *rapid.T, c *Cfg, lzma2 bool) {
	if rapid.IntRange(0, 5).Draw(t, "defprops") == 0 {
		c.DefProps = true
		return
	}
	if lzma2 {
		c.LC = rapid.IntRange(0, 4).Draw(t, "lc")
		c.LP = rapid.IntRange(0, 4-c.LC).Draw(t, "lp")
	} else {
		c.LC = rapid.IntRange(0, 8).Draw(t, "lc")
		c.LP = rapid.IntRange(0, 4).Draw(t, "lp")
	}
	c.PB = rapid.IntRange(0, 4).Draw(t, "pb")
}

// DrawOdd changes one setting of c to a value outside the documented range or
// on its edge - lc/lp/pb combinations (for xz and LZMA2 lc+lp must not exceed
// 4), dictionary capacity, look-ahead size, match finder id, check id, block
// size - and records which. Whether such a configuration is valid is for the
// library to say (Verify / the constructor): the properties quantify over the
// configurations it ACCEPTS, and to everything accepted the whole oracle applies.
func DrawOdd(t *rapid.T, c *Cfg, format string) {
	dims := []string{"props", "props", "props", "dictcap", "bufsize", "matcher"}
	if format == "xz" {
		dims = append(dims, "check", "blocksize")
	}
	switch d := rapid.SampledFrom(dims).Draw(t, "odd"); d {
	case "props":
		c.DefProps = false
		c.LC = rapid.IntRange(0, 9).Draw(t, "oddlc")
		c.LP = rapid.IntRange(0, 5).Draw(t, "oddlp")
		c.PB = rapid.IntRange(0, 5).Draw(t, "oddpb")
		c.Odd = fmt.Sprintf("props=%d/%d/%d", c.LC, c.LP, c.PB)
	case "dictcap":
		c.DictCap = rapid.SampledFrom([]int{-1, 1, 273, 4095}).Draw(t, "odddict")
		c.Odd = fmt.Sprintf("dictcap=%d", c.DictCap)
	case "bufsize":
		c.BufSize = rapid.SampledFrom([]int{-1, 1, 272}).Draw(t, "oddbuf")
		c.Odd = fmt.Sprintf("bufsize=%d", c.BufSize)
	case "matcher":
		c.Matcher = rapid.SampledFrom([]int{2, 3, 255}).Draw(t, "oddmatcher")
		c.Odd = fmt.Sprintf("matcher=%d", c.Matcher)
	case "check":
		c.NoCheckSum = false
		c.CheckSum = byte(rapid.SampledFrom([]int{2, 3, 5, 9, 11, 15, 16, 255}).Draw(t, "oddcheck"))
		c.Odd = fmt.Sprintf("check=%d", c.CheckSum)
	case "blocksize":
		c.BlockSize = rapid.SampledFrom([]int64{-1, -4096}).Draw(t, "oddblock")
		c.Odd = fmt.Sprintf("blocksize=%d", c.BlockSize)
	}
}

// DictCaps are the dictionary capacities the generators aim at.
var DictCaps = []int{4096, 4096, 4097, 6000, 8192, 65535, 65536, 1 << 17, 1 << 20}

// BufSizes are the look-ahead sizes the generators aim at.
var BufSizes = []int{273, 273, 274, 512, 0, 4096, 70000}

// DrawCoder draws dictionary, look-ahead and matcher.
func DrawCoder(t *rapid.T, c *Cfg) {
	c.DictCap = rapid.SampledFrom(DictCaps).Draw(t, "dictcap")
	c.BufSize = rapid.SampledFrom(BufSizes).Draw(t, "bufsize")
	c.Matcher = rapid.IntRange(0, 1).Draw(t, "matcher")
}

// DrawXZ draws a complete xz writer configuration.
func DrawXZ(t *rapid.T) Cfg {
	var c Cfg
	DrawProps(t, &c, true)
	DrawCoder(t, &c)
	c.BlockSize = rapid.SampledFrom([]int64{0, 0, 0, 1, 2, 3, 5, 64, 1000, 4096, 65536, 70001, 2<<20 + 1}).Draw(t, "blocksize")
	switch rapid.IntRange(0, 5).Draw(t, "check") {
	case 0:
	case 1:
		c.CheckSum = xz.CRC32
	case 2:
		c.CheckSum = xz.CRC64
	case 3:
		c.CheckSum = xz.SHA256
	case 4:
		c.NoCheckSum = true
	case 5:
		c.NoCheckSum = true
		c.CheckSum = xz.CRC32
	}
	return c
}

// Partition is a way to split n bytes into Write calls: the list of call
// lengths (zero-length writes allowed).
type Partition struct {
	Kind string `json:"kind"`
	Lens []int  `json:"lens,omitempty"` // explicit lengths for kind "cuts"
}

// Split returns the write lengths for n bytes.
func (p Partition) Split(n int) []int {
	switch p.Kind {
	case "single":
		return []int{n}
	case "bytewise":
		r := make([]int, n)
		for i := range r {
			r[i] = 1
		}
		return r
	}
	var r []int
	rem := n
	for _, l := range p.Lens {
		if l > rem {
			l = rem
		}
		r = append(r, l)
		rem -= l
	}
	if rem > 0 {
		r = append(r, rem)
	}
	return r
}

// DrawPartition draws a partition for n bytes; interesting boundaries are
// given in marks (block size, chunk limits).
func DrawPartition(t *rapid.T, n int, marks ...int) Partition {
	kinds := []string{"single", "single", "cuts", "cuts", "marks"}
	if n <= 2000 {
		kinds = append(kinds, "bytewise")
	}
	k := rapid.SampledFrom(kinds).Draw(t, "partition")
	switch k {
	case "single", "bytewise":
		return Partition{Kind: k}
	case "marks":
		var lens []int
		pos := 0
		for _, m := range marks {
			for _, d := range []int{-1, 0, 1} {
				p := m + d
				if p > pos && p < n {
					lens = append(lens, p-pos)
					pos = p
				}
			}
		}
		return Partition{Kind: "cuts", Lens: lens}
	}
	cnt := rapid.IntRange(1, 8).Draw(t, "ncuts")
	var lens []int
	rem := n
	for i := 0; i < cnt; i++ {
		if rapid.IntRange(0, 5).Draw(t, "zero") == 0 {
			lens = append(lens, 0)
			continue
		}
		l := rapid.IntRange(0, rem).Draw(t, "cutlen")
		lens = append(lens, l)
		rem -= l
	}
	return Partition{Kind: "cuts", Lens: lens}
}
