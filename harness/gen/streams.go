package gen

import (
	"bytes"
	"encoding/binary"
	"encoding/json"
	"fmt"
	"os"
	"path/filepath"

	"github.com/ulikunitz/xz/lzma"
	"pgregory.net/rapid"

	"verif/liblz"
	"verif/ref"
)

// Src describes how a valid stream is made. It is JSON-serialisable and
// Build is a pure function of it, so a case replays from the description.
type Src struct {
	Fmt    string `json:"fmt"`    // xz | lzma2 | lzma
	Origin string `json:"origin"` // lib | ref | liblzma | corpus

	// origin lib
	Cfg     Cfg    `json:"cfg,omitempty"`
	Data    Recipe `json:"data,omitempty"`
	Flushes []int  `json:"flushes,omitempty"` // lzma2: Flush after this many bytes

	// origin ref (specification-driven generator, expanded from Seed)
	Seed    uint64 `json:"seed,omitempty"`
	Tape    []byte `json:"tape,omitempty"`    // decisions replayed before Seed takes over (coverage-guided fuzzing)
	NOps    int    `json:"nops,omitempty"`    // operations per LZMA chunk (upper bound)
	NChunks int    `json:"nchunks,omitempty"` // chunks per block
	NBlocks int    `json:"nblocks,omitempty"`
	Big     bool   `json:"big,omitempty"` // one LZMA chunk with more than 1 MiB of output
	// extra chunks appended to the (first) chunk list whose header size fields
	// take exactly these values: compressed size of an LZMA chunk (CFit, fitted
	// with literals), uncompressed size of an LZMA chunk (UFit, long matches),
	// size of an uncompressed chunk (RawFit)
	CFit     int    `json:"cfit,omitempty"`
	UFit     int    `json:"ufit,omitempty"`
	RawFit   int    `json:"rawfit,omitempty"`
	Check    byte   `json:"check,omitempty"`
	DictCode byte   `json:"dictcode,omitempty"`
	Sizes    int    `json:"sizes,omitempty"`    // bit0 compressed size field, bit1 uncompressed
	ExtraPad int    `json:"extrapad,omitempty"` // extra block header padding (x4 bytes)
	Mix      bool   `json:"mix,omitempty"`      // xz: every block draws its own size-field flags, header padding and dictionary code
	SizeMode int    `json:"sizemode,omitempty"` // lzma: 0 marker, 1 size, 2 size+marker
	MarkLen  int    `json:"marklen,omitempty"`  // lzma (ref): length coded in the end marker (0 = 2)
	DictFld  uint32 `json:"dictfld,omitempty"`  // lzma: header dictionary field
	Props    [3]int `json:"props,omitempty"`    // lzma (ref): lc lp pb

	// origin ref, xz: CRC-valid lies about sizes and counts (hostile input)
	Lies []Lie `json:"lies,omitempty"`

	// origin liblzma
	LZ liblz.Opts `json:"lz,omitempty"`

	// origin corpus
	File string `json:"file,omitempty"`
}

// MarshalJSON drops the parts that do not apply to the origin, so that
// evidence samples and replay files stay readable.
func (s Src) MarshalJSON() ([]byte, error) {
	type plain Src
	type out struct {
		plain
		Cfg *Cfg        `json:"cfg,omitempty"`
		LZ  *liblz.Opts `json:"lz,omitempty"`
	}
	o := out{plain: plain(s)}
	if s.Origin == "lib" {
		c := s.Cfg
		o.Cfg = &c
	}
	if s.Origin == "liblzma" {
		l := s.LZ
		o.LZ = &l
	}
	if s.Origin != "ref" || s.Fmt != "lzma" {
		o.plain.Props = [3]int{}
	}
	return json.Marshal(o)
}

// Lie replaces one metadata value of a generator-built xz stream by V while
// every CRC32 stays correct. F: csize | usize (block header of block Blk),
// count | rec_unpadded | rec_usize (index, record Blk), backward (footer).
type Lie struct {
	F   string `json:"f"`
	Blk int    `json:"blk,omitempty"`
	V   uint64 `json:"v"`
}

// HostileValues are the values lies are drawn from.
var HostileValues = []uint64{0, 1, 2, 1<<31 - 1, 1 << 31, 1<<32 - 1, 1 << 32, 1 << 62, 1<<63 - 2, 1<<63 - 1, 1 << 63, 1<<64 - 1}

// Built is the result of Build.
type Built struct {
	Stream  []byte
	Content []byte
	// Feature labels for class counting (constructs present).
	Features []string
	// DictSize declared (lzma2 raw streams need it for decoding).
	DictSize uint32
}

// Build makes the stream.
func (s Src) Build() (*Built, error) {
	switch s.Origin {
	case "lib":
		return s.buildLib()
	case "ref":
		return s.buildRef()
	case "liblzma":
		return s.buildLiblzma()
	case "corpus":
		return s.buildCorpus()
	}
	return nil, fmt.Errorf("gen: unknown origin %q", s.Origin)
}

func (s Src) buildLib() (*Built, error) {
	data := s.Data.Expand()
	var buf bytes.Buffer
	b := &Built{Content: data, DictSize: uint32(s.Cfg.EffDict())}
	switch s.Fmt {
	case "xz":
		w, err := s.Cfg.XZ().NewWriter(&buf)
		if err != nil {
			return nil, err
		}
		if _, err := w.Write(data); err != nil {
			return nil, err
		}
		if err := w.Close(); err != nil {
			return nil, err
		}
	case "lzma2":
		w, err := s.Cfg.W2().NewWriter2(&buf)
		if err != nil {
			return nil, err
		}
		pos := 0
		for _, f := range s.Flushes {
			if f > len(data) {
				f = len(data)
			}
			if f < pos {
				continue
			}
			if _, err := w.Write(data[pos:f]); err != nil {
				return nil, err
			}
			pos = f
			if err := w.Flush(); err != nil {
				return nil, err
			}
		}
		if _, err := w.Write(data[pos:]); err != nil {
			return nil, err
		}
		if err := w.Close(); err != nil {
			return nil, err
		}
	case "lzma":
		w, err := s.Cfg.W1().NewWriter(&buf)
		if err != nil {
			return nil, err
		}
		if _, err := w.Write(data); err != nil {
			return nil, err
		}
		if err := w.Close(); err != nil {
			return nil, err
		}
	}
	b.Stream = buf.Bytes()
	return b, nil
}

// OpsFrom draws up to n legal operations from the PRNG against the simulator.
// Lengths are biased to 2, 273 and small values; distances to 1, the current
// reps, the window edge and uniform values.
func OpsFrom(p *PRNG, sim *ref.LZMA2Sim, n int, maxOut int) []ref.Op {
	var ops []ref.Op
	tries := 0
	start := sim.Total()
	for len(ops) < n && tries < 8*n+16 && sim.Total()-start < maxOut {
		tries++
		v := p.Next()
		var op ref.Op
		pickLen := func() int {
			switch (v >> 8) % 8 {
			case 0:
				return 2
			case 1:
				return 273
			case 2:
				return 3 + int((v>>16)%270)
			case 3:
				return 9 + int((v>>16)%2) // around the low/mid boundary
			case 4:
				return 17 + int((v>>16)%2) // around the mid/high boundary
			}
			return 2 + int((v>>16)%12)
		}
		av := sim.Avail()
		switch k := v % 16; {
		case k < 5 || av == 0:
			b := byte(v >> 8)
			if (v>>16)%3 == 0 {
				b = byte((v >> 8) % 4)
			}
			op = ref.Op{Kind: ref.OpLit, Byte: b}
		case k < 9:
			var d uint32
			switch (v >> 32) % 8 {
			case 0:
				d = 0
			case 1:
				d = uint32(av - 1) // window edge
			case 2:
				d = sim.Rep[(v>>40)%4] // plain match at a rep distance
			case 3:
				d = uint32((v >> 40) % 4) // slots 0..3
			case 4:
				d = uint32((v>>40)%128) % uint32(av)
			default:
				d = uint32((v >> 35) % uint64(av))
			}
			op = ref.Op{Kind: ref.OpMatch, Dist: d, Len: pickLen()}
		case k < 14:
			op = ref.Op{Kind: ref.OpRep, Rep: int((v >> 32) % 4), Len: pickLen()}
		default:
			op = ref.Op{Kind: ref.OpShortRep}
		}
		if sim.Apply(op) {
			ops = append(ops, op)
		}
	}
	return ops
}

func propsFrom(p *PRNG, lzma2 bool) ref.Props {
	v := p.Next()
	if lzma2 {
		lc := int(v % 5)
		lp := int((v >> 8) % uint64(5-lc))
		return ref.Props{LC: lc, LP: lp, PB: int((v >> 16) % 5)}
	}
	return ref.Props{LC: int(v % 9), LP: int((v >> 8) % 5), PB: int((v >> 16) % 5)}
}

// ChunksFrom draws a legal chunk sequence (without end chunk).
func ChunksFrom(p *PRNG, sim *ref.LZMA2Sim, nchunks, nops int, feats map[string]bool, big bool) []ref.ChunkSpec {
	var specs []ref.ChunkSpec
	needD, needP := true, true
	prevRaw := false
	for c := 0; c < nchunks; c++ {
		var cs ref.ChunkSpec
		for {
			cs.Kind = 1 + int(p.Next()%6)
			if prevRaw && !needP && !needD && p.Next()%2 == 0 {
				cs.Kind = ref.CkL
			}
			if needD && cs.Kind != ref.CkRawD && cs.Kind != ref.CkLRND {
				continue
			}
			if needP && (cs.Kind == ref.CkL || cs.Kind == ref.CkLR) {
				continue
			}
			break
		}
		switch cs.Kind {
		case ref.CkRawD, ref.CkRaw:
			if cs.Kind == ref.CkRawD {
				if !needD {
					feats["dict_reset_midstream"] = true
				}
				sim.DictReset()
				needP = true
			}
			needD = false
			n := 1 + int(p.Next()%60)
			if p.Next()%16 == 0 {
				n = 1 + int(p.Next()%3000)
			}
			cs.Raw = make([]byte, n)
			p.Fill(cs.Raw)
			if p.Next()%2 == 0 {
				for i := range cs.Raw {
					cs.Raw[i] &= 3
				}
			}
			sim.Raw(cs.Raw)
			prevRaw = true
			feats["raw_chunk"] = true
		default:
			if cs.Kind == ref.CkLRND {
				if !needD {
					feats["dict_reset_midstream"] = true
				}
				sim.DictReset()
			}
			needD = false
			if cs.Kind >= ref.CkLR {
				sim.StateReset()
				if c > 0 {
					feats["state_reset_midstream"] = true
				}
			}
			if cs.Kind >= ref.CkLRN {
				cs.Props = propsFrom(p, true)
				if !needP {
					feats["props_change_midstream"] = true
				}
				needP = false
			}
			if cs.Kind == ref.CkL && prevRaw {
				feats["lzma_after_raw_no_reset"] = true
			}
			prevRaw = false
			cs.Ops = OpsFrom(p, sim, 1+int(p.Next()%uint64(nops)), 1<<20)
			if big && !feats["chunk>1MiB"] && p.Next()%2 == 0 {
				// a chunk with more than 1 MiB of output (the uncompressed size then
				// needs bit 20, carried in the control byte): long matches at a
				// short distance are cheap to encode
				target := 1<<20 + 1 + int(p.Next()%(1<<20-600))
				made := 0
				for _, o := range cs.Ops {
					switch o.Kind {
					case ref.OpLit, ref.OpShortRep:
						made++
					default:
						made += o.Len
					}
				}
				if sim.Avail() == 0 {
					o := ref.Op{Kind: ref.OpLit, Byte: byte(p.Next())}
					sim.Apply(o)
					cs.Ops = append(cs.Ops, o)
					made++
				}
				for made < target {
					l := target - made
					if l > 273 {
						l = 273
					}
					o := ref.Op{Kind: ref.OpMatch, Dist: uint32(p.Next() % uint64(min(sim.Avail(), 64))), Len: l}
					if l < 2 {
						o = ref.Op{Kind: ref.OpLit, Byte: 'z'}
					}
					if !sim.Apply(o) {
						break
					}
					cs.Ops = append(cs.Ops, o)
					if o.Kind == ref.OpLit {
						made++
					} else {
						made += l
					}
				}
				feats["chunk>1MiB"] = true
			}
			if len(cs.Ops) == 0 {
				cs.Ops = []ref.Op{{Kind: ref.OpLit, Byte: byte(p.Next())}}
				sim.Apply(cs.Ops[0])
			}
		}
		specs = append(specs, cs)
	}
	return specs
}

// fitCompressed builds an LZMA chunk (dictionary reset, new properties) of
// literals whose compressed size is exactly target bytes.
func fitCompressed(p *PRNG, target int) (ref.ChunkSpec, error) {
	props := ref.Props{LC: 3, LP: 0, PB: 2}
	lits := make([]ref.Op, target+64)
	for i := range lits {
		lits[i] = ref.Op{Kind: ref.OpLit, Byte: byte(p.Next() >> 11)}
	}
	size := func(n int) int {
		stream, _, err := ref.EncodeLZMA2([]ref.ChunkSpec{{Kind: ref.CkLRND, Props: props, Ops: lits[:n]}}, 4096)
		if err != nil {
			return 1 << 30
		}
		return len(stream) - 6
	}
	lo, hi := 1, len(lits)
	for lo < hi {
		mid := (lo + hi) / 2
		if size(mid) >= target {
			hi = mid
		} else {
			lo = mid + 1
		}
	}
	for try := 0; try < 400; try++ {
		for _, n := range []int{lo, lo - 1, lo + 1} {
			if n >= 1 && n <= len(lits) && size(n) == target {
				return ref.ChunkSpec{Kind: ref.CkLRND, Props: props, Ops: append([]ref.Op{}, lits[:n]...)}, nil
			}
		}
		lits[lo-1].Byte = byte(p.Next() >> 11)
		if lo >= 2 {
			lits[lo-2].Byte = byte(p.Next() >> 23)
		}
	}
	return ref.ChunkSpec{}, fmt.Errorf("gen: cannot fit a chunk to %d compressed bytes", target)
}

// fitSpecs returns the extra chunks requested by CFit / UFit / RawFit and
// applies them to the simulator.
func (s Src) fitSpecs(p *PRNG, sim *ref.LZMA2Sim, feats map[string]bool) ([]ref.ChunkSpec, error) {
	var specs []ref.ChunkSpec
	if s.RawFit > 0 {
		cs := ref.ChunkSpec{Kind: ref.CkRawD, Raw: make([]byte, s.RawFit)}
		p.Fill(cs.Raw)
		sim.DictReset()
		sim.Raw(cs.Raw)
		specs = append(specs, cs)
		feats[fmt.Sprintf("raw_size=%d", s.RawFit)] = true
	}
	if s.UFit > 0 {
		cs := ref.ChunkSpec{Kind: ref.CkLRND, Props: ref.Props{LC: 3, LP: 0, PB: 2}}
		sim.DictReset()
		sim.StateReset()
		add := func(o ref.Op) {
			if sim.Apply(o) {
				cs.Ops = append(cs.Ops, o)
			}
		}
		add(ref.Op{Kind: ref.OpLit, Byte: byte(p.Next())})
		for made := 1; made < s.UFit; {
			l := s.UFit - made
			if l > 273 {
				l = 273
			}
			if l < 2 {
				add(ref.Op{Kind: ref.OpLit, Byte: 'u'})
				made++
				continue
			}
			add(ref.Op{Kind: ref.OpMatch, Dist: 0, Len: l})
			made += l
		}
		specs = append(specs, cs)
		feats[fmt.Sprintf("lzma_usize=%d", s.UFit)] = true
	}
	if s.CFit > 0 {
		cs, err := fitCompressed(p, s.CFit)
		if err != nil {
			return nil, err
		}
		sim.DictReset()
		sim.StateReset()
		for _, o := range cs.Ops {
			sim.Apply(o)
		}
		specs = append(specs, cs)
		feats[fmt.Sprintf("lzma_csize=%d", s.CFit)] = true
	}
	return specs, nil
}

func (s Src) buildRef() (*Built, error) {
	p := NewTapePRNG(s.Seed, s.Tape)
	feats := map[string]bool{}
	b := &Built{}
	switch s.Fmt {
	case "lzma":
		props := ref.Props{LC: s.Props[0], LP: s.Props[1], PB: s.Props[2]}
		sim := ref.NewSim(s.DictFld)
		sim.StateReset()
		ops := OpsFrom(p, sim, s.NOps, 1<<22)
		stream, plain, err := ref.EncodeLZMAMarker(props, s.DictFld, ops, s.SizeMode, s.MarkLen)
		if s.MarkLen > 2 && s.SizeMode != 1 {
			feats["end_marker_length>2"] = true
		}
		if err != nil {
			return nil, err
		}
		b.Stream, b.Content = stream, plain
		b.DictSize = s.DictFld
		feats[fmt.Sprintf("sizemode=%d", s.SizeMode)] = true
		if props.LC+props.LP > 4 {
			feats["lc+lp>4"] = true
		}
	case "lzma2":
		ds, _ := ref.DictSizeForCode(s.DictCode)
		sim := ref.NewSim(ds)
		specs := ChunksFrom(p, sim, s.NChunks, s.NOps, feats, s.Big)
		extra, err := s.fitSpecs(p, sim, feats)
		if err != nil {
			return nil, err
		}
		specs = append(append(specs, extra...), ref.ChunkSpec{Kind: ref.CkEnd})
		stream, plain, err := ref.EncodeLZMA2(specs, ds)
		if err != nil {
			return nil, err
		}
		b.Stream, b.Content, b.DictSize = stream, plain, ds
	case "xz":
		sp := ref.StreamSpec{Check: s.Check}
		ds, _ := ref.DictSizeForCode(s.DictCode)
		for i := 0; i < s.NBlocks; i++ {
			sim := ref.NewSim(ds)
			nch := s.NChunks
			if nch > 0 && p.Next()%8 == 0 {
				nch = 0 // empty block
				feats["empty_block"] = true
			}
			specs := ChunksFrom(p, sim, nch, s.NOps, feats, s.Big)
			if i == 0 {
				extra, err := s.fitSpecs(p, sim, feats)
				if err != nil {
					return nil, err
				}
				specs = append(specs, extra...)
			}
			specs = append(specs, ref.ChunkSpec{Kind: ref.CkEnd})
			bs := ref.BlockSpec{Chunks: specs, DictCode: s.DictCode, WithCSize: s.Sizes&1 != 0, WithUSize: s.Sizes&2 != 0, ExtraPad: s.ExtraPad}
			if s.Mix {
				// blocks that differ from each other: a size field present in
				// one header and absent from the next, other padding, a larger
				// declared dictionary (never smaller than the one the chunks
				// were built for)
				v := p.Next()
				bs.WithCSize, bs.WithUSize = v&1 != 0, v&2 != 0
				bs.ExtraPad = int((v >> 2) % 3)
				if bs.DictCode < 8 {
					bs.DictCode += byte((v >> 8) % 3)
				}
				feats["blocks_differ"] = true
			}
			sp.Blocks = append(sp.Blocks, bs)
		}
		if s.NBlocks == 0 {
			feats["zero_blocks"] = true
		}
		if s.Sizes != 0 {
			feats["size_fields"] = true
		}
		if s.ExtraPad != 0 {
			feats["extra_header_padding"] = true
		}
		for _, l := range s.Lies {
			v := l.V
			switch l.F {
			case "csize":
				if l.Blk < len(sp.Blocks) {
					sp.Blocks[l.Blk].CSizeLie = &v
				}
			case "usize":
				if l.Blk < len(sp.Blocks) {
					sp.Blocks[l.Blk].USizeLie = &v
				}
			case "count":
				sp.CountLie = &v
			case "rec_unpadded":
				if sp.UnpaddedLie == nil {
					sp.UnpaddedLie = map[int]uint64{}
				}
				sp.UnpaddedLie[l.Blk] = v
			case "rec_usize":
				if sp.RecUSizeLie == nil {
					sp.RecUSizeLie = map[int]uint64{}
				}
				sp.RecUSizeLie[l.Blk] = v
			case "droprecs":
				sp.DropRecs = int(int64(v))
			case "backward":
				w := uint32(v)
				sp.BackwardLie = &w
			}
			feats["lie:"+l.F] = true
		}
		stream, plain, err := ref.EncodeXZ(sp)
		if err != nil {
			return nil, err
		}
		b.Stream, b.Content, b.DictSize = stream, plain, ds
		feats[fmt.Sprintf("check=%d", s.Check)] = true
	}
	for f := range feats {
		b.Features = append(b.Features, f)
	}
	return b, nil
}

func (s Src) buildLiblzma() (*Built, error) {
	data := s.Data.Expand()
	b := &Built{Content: data, DictSize: liblz.DictOf(s.LZ)}
	var err error
	switch s.Fmt {
	case "xz":
		b.Stream, err = liblz.EncodeXZ(data, s.LZ)
		if s.LZ.MT {
			b.Features = append(b.Features, "size_fields", "liblzma_mt")
		}
	case "lzma2":
		b.Stream, err = liblz.EncodeRawLZMA2(data, s.LZ)
	case "lzma":
		switch s.SizeMode {
		case 0:
			b.Stream, err = liblz.EncodeAlone(data, s.LZ)
		default:
			var raw []byte
			raw, err = liblz.EncodeRawLZMA1(data, s.LZ, s.SizeMode == 2)
			if err == nil {
				lc, lp, pb := liblz.PropsOf(s.LZ)
				hdr := make([]byte, 13)
				hdr[0] = byte((pb*5+lp)*9 + lc)
				binary.LittleEndian.PutUint32(hdr[1:], liblz.DictOf(s.LZ))
				binary.LittleEndian.PutUint64(hdr[5:], uint64(len(data)))
				b.Stream = append(hdr, raw...)
			}
		}
		b.Features = append(b.Features, fmt.Sprintf("sizemode=%d", s.SizeMode))
	}
	return b, err
}

// CorpusDir is where the frozen foreign streams live.
func CorpusDir() string {
	root := os.Getenv("VERIF_ROOT")
	if root == "" {
		root = "/verif"
	}
	return filepath.Join(root, "corpus")
}

func (s Src) buildCorpus() (*Built, error) {
	stream, err := os.ReadFile(filepath.Join(CorpusDir(), s.File))
	if err != nil {
		return nil, err
	}
	b := &Built{Stream: stream}
	switch s.Fmt {
	case "xz":
		res, err := ref.DecodeXZ(stream)
		if err != nil {
			return nil, fmt.Errorf("corpus file %s rejected by the reference decoder: %v", s.File, err)
		}
		b.Content = res.Out
	case "lzma":
		res, err := ref.DecodeLZMA(stream)
		if err != nil {
			return nil, fmt.Errorf("corpus file %s rejected by the reference decoder: %v", s.File, err)
		}
		b.Content = res.Out
	}
	return b, nil
}

// CorpusFiles lists the corpus files with the given suffix.
func CorpusFiles(suffix string) []string {
	m, _ := filepath.Glob(filepath.Join(CorpusDir(), "*"+suffix))
	var r []string
	for _, f := range m {
		r = append(r, filepath.Base(f))
	}
	return r
}

// smallCfg draws a cheap library writer configuration (small dictionary).
func smallCfg(t *rapid.T, lzma2 bool) Cfg {
	var c Cfg
	DrawProps(t, &c, lzma2)
	c.DictCap = rapid.SampledFrom([]int{4096, 4096, 8192, 65536}).Draw(t, "dictcap")
	c.BufSize = rapid.SampledFrom([]int{273, 512, 0}).Draw(t, "bufsize")
	c.Matcher = rapid.IntRange(0, 1).Draw(t, "matcher")
	return c
}

// DrawLZOpts draws liblzma encoder options.
func DrawLZOpts(t *rapid.T, n int) liblz.Opts {
	o := liblz.Opts{LC: -1}
	o.Preset = uint32(rapid.SampledFrom([]int{0, 1, 3, 6, 9}).Draw(t, "preset"))
	if rapid.Bool().Draw(t, "extreme") {
		o.Preset |= 0x80000000
	}
	o.Dict = uint32(rapid.SampledFrom([]int{4096, 8192, 65536, 1 << 20}).Draw(t, "lzdict"))
	if rapid.IntRange(0, 2).Draw(t, "lzprops") > 0 {
		o.LC = rapid.IntRange(0, 4).Draw(t, "lc")
		o.LP = rapid.IntRange(0, 4-o.LC).Draw(t, "lp")
		o.PB = rapid.IntRange(0, 4).Draw(t, "pb")
	}
	o.MF = rapid.SampledFrom([]int{0, 0x03, 0x04, 0x12, 0x13, 0x14}).Draw(t, "mf")
	o.Mode = rapid.IntRange(0, 2).Draw(t, "mode")
	nice := rapid.SampledFrom([]int{0, 2, 3, 4, 32, 273}).Draw(t, "nice")
	// nice_len must be >= the match finder's minimum
	min := 2
	switch o.MF {
	case 0x03, 0x13:
		min = 3
	case 0x04, 0x14, 0:
		min = 4
	}
	if nice != 0 && nice < min {
		nice = min
	}
	o.Nice = nice
	o.Check = rapid.SampledFrom([]int{0, 1, 4, 10}).Draw(t, "check")
	if n > 2 {
		k := rapid.IntRange(0, 3).Draw(t, "nflush")
		prev := 0
		for i := 0; i < k; i++ {
			f := rapid.IntRange(prev, n).Draw(t, "flushat")
			if rapid.Bool().Draw(t, "full") {
				o.FullFlush = append(o.FullFlush, f)
			} else {
				o.SyncFlush = append(o.SyncFlush, f)
			}
			prev = f
		}
	}
	if rapid.IntRange(0, 5).Draw(t, "mt") == 0 {
		o.MT = true
		o.BlockSize = uint64(rapid.SampledFrom([]int{4096, 10000, 100000}).Draw(t, "mtblock"))
	}
	return o
}

// DrawSrc draws a stream description of the given format. origins restricts
// the origins ("lib", "ref", "liblzma", "corpus"); maxData bounds the content.
func DrawSrc(t *rapid.T, format string, maxData int, origins ...string) Src {
	var avail []string
	for _, o := range origins {
		if o == "liblzma" && !liblz.Available {
			continue
		}
		if o == "corpus" && len(CorpusFiles("."+format)) == 0 {
			continue
		}
		avail = append(avail, o)
	}
	s := Src{Fmt: format, Origin: rapid.SampledFrom(avail).Draw(t, "origin")}
	classes := []string{"tiny", "small", "small", "medium"}
	if maxData > 70000 {
		classes = append(classes, "k64")
	}
	switch s.Origin {
	case "lib":
		s.Cfg = smallCfg(t, format != "lzma")
		s.Data = DrawRecipe(t, 4, maxData, classes...)
		if s.Cfg.Matcher == 1 {
			for i := range s.Data {
				if s.Data[i].Len > 12000 {
					s.Data[i].Len = 12000
				}
			}
		}
		n := s.Data.Len()
		switch format {
		case "xz":
			s.Cfg.BlockSize = rapid.SampledFrom([]int64{0, 0, 1, 7, 100, 1000, 4096}).Draw(t, "blocksize")
			if bs := s.Cfg.BlockSize; bs > 0 && int64(n)/bs > 40 {
				s.Cfg.BlockSize = int64(n)/40 + 1
			}
			switch rapid.IntRange(0, 3).Draw(t, "check") {
			case 0:
				s.Cfg.CheckSum = 1
			case 1:
				s.Cfg.CheckSum = 4
			case 2:
				s.Cfg.CheckSum = 10
			case 3:
				s.Cfg.NoCheckSum = true
			}
		case "lzma2":
			k := rapid.IntRange(0, 3).Draw(t, "nflush")
			prev := 0
			for i := 0; i < k; i++ {
				f := rapid.IntRange(prev, n).Draw(t, "flushat")
				s.Flushes = append(s.Flushes, f)
				prev = f
			}
		case "lzma":
			switch rapid.IntRange(0, 2).Draw(t, "term") {
			case 1:
				s.Cfg.SizeInHeader, s.Cfg.Size = true, int64(n)
			case 2:
				s.Cfg.SizeInHeader, s.Cfg.Size, s.Cfg.EOSMarker = true, int64(n), true
			}
			if n == 0 && s.Cfg.SizeInHeader && !s.Cfg.EOSMarker {
				// Size 0 in the header means "unknown" for this writer (C06 covers it)
				s.Cfg.EOSMarker = true
			}
		}
	case "ref":
		s.Seed = rapid.Uint64().Draw(t, "seed")
		s.NOps = rapid.SampledFrom([]int{1, 3, 20, 200, 1500}).Draw(t, "nops")
		if maxData >= 30000 && format != "lzma" && rapid.IntRange(0, 15).Draw(t, "bigchunk") == 0 {
			s.Big = true
		}
		switch format {
		case "xz":
			s.NBlocks = rapid.SampledFrom([]int{0, 1, 1, 2, 3}).Draw(t, "nblocks")
			s.NChunks = rapid.IntRange(0, 5).Draw(t, "nchunks")
			s.Check = rapid.SampledFrom([]byte{0, 1, 4, 10}).Draw(t, "check")
			s.DictCode = byte(rapid.SampledFrom([]int{0, 0, 1, 2, 5, 8}).Draw(t, "dictcode"))
			if maxData > 100000 && rapid.IntRange(0, 40).Draw(t, "bigdict") == 0 {
				// large declared dictionaries (up to 64 MiB): the reader allocates them
				s.DictCode = byte(rapid.SampledFrom([]int{16, 21, 24, 27, 28}).Draw(t, "bigdictcode"))
			}
			s.Sizes = rapid.IntRange(0, 3).Draw(t, "sizes")
			s.Mix = s.NBlocks >= 2 && rapid.IntRange(0, 2).Draw(t, "mixblocks") == 0
			// header padding up to the largest header the size byte can
			// state (0xFF: 1024 bytes = 12 + 4*253)
			s.ExtraPad = rapid.SampledFrom([]int{0, 0, 0, 1, 3, 3, 126, 252, 253}).Draw(t, "extrapad")
			if s.ExtraPad > 250 && s.Sizes != 0 {
				s.ExtraPad = 250 // room for two size fields of any length
			}
		case "lzma2":
			s.NChunks = rapid.IntRange(0, 6).Draw(t, "nchunks")
			s.DictCode = byte(rapid.SampledFrom([]int{0, 0, 1, 2, 5, 8}).Draw(t, "dictcode"))
		case "lzma":
			s.SizeMode = rapid.IntRange(0, 2).Draw(t, "sizemode")
			s.MarkLen = rapid.SampledFrom([]int{0, 0, 3, 9, 10, 18, 100, 273}).Draw(t, "marklen")
			s.DictFld = rapid.SampledFrom([]uint32{0, 1, 4095, 4096, 4097, 8192, 65536, 1 << 20}).Draw(t, "dictfld")
			s.Props = [3]int{rapid.IntRange(0, 8).Draw(t, "lc"), rapid.IntRange(0, 4).Draw(t, "lp"), rapid.IntRange(0, 4).Draw(t, "pb")}
			if rapid.IntRange(0, 9).Draw(t, "empty") == 0 {
				s.NOps = 0
			}
		}
	case "liblzma":
		s.Data = DrawRecipe(t, 4, maxData, classes...)
		s.LZ = DrawLZOpts(t, s.Data.Len())
		if format == "lzma" {
			s.SizeMode = rapid.IntRange(0, 2).Draw(t, "sizemode")
		}
	case "corpus":
		s.File = rapid.SampledFrom(CorpusFiles("."+format)).Draw(t, "file")
	}
	return s
}

// W2For returns an LZMA2 writer for a config (helper for checks).
func W2For(c Cfg, w *bytes.Buffer) (*lzma.Writer2, error) { return c.W2().NewWriter2(w) }
