// Package fuzz holds the native coverage-guided fuzz targets of C11. The
// oracle (no panic, n <= len(p), progress) is inside the target.
package fuzz

import (
	"bytes"
	"os"
	"path/filepath"
	"testing"
	"time"

	"github.com/ulikunitz/xz"
	"github.com/ulikunitz/xz/lzma"

	"verif/hostile"
)

func corpusDir() string {
	root := os.Getenv("VERIF_ROOT")
	if root == "" {
		root = "/verif"
	}
	return filepath.Join(root, "corpus")
}

func seeds(f *testing.F, format string) {
	// small valid streams written by the library
	for _, text := range []string{"", "a", "hello hello hello hello", string(bytes.Repeat([]byte("abcd"), 200))} {
		var buf bytes.Buffer
		switch format {
		case "xz":
			for _, bs := range []int64{0, 7} {
				buf.Reset()
				w, _ := xz.WriterConfig{DictCap: 4096, BlockSize: bs, CheckSum: xz.CRC32}.NewWriter(&buf)
				w.Write([]byte(text))
				w.Close()
				f.Add(append([]byte{}, buf.Bytes()...))
			}
		case "lzma":
			w, _ := lzma.WriterConfig{DictCap: 4096}.NewWriter(&buf)
			w.Write([]byte(text))
			w.Close()
			f.Add(append([]byte{}, buf.Bytes()...))
			buf.Reset()
			w, _ = lzma.WriterConfig{DictCap: 4096, SizeInHeader: true, Size: int64(len(text))}.NewWriter(&buf)
			w.Write([]byte(text))
			w.Close()
			f.Add(append([]byte{}, buf.Bytes()...))
		case "lzma2":
			w, _ := lzma.Writer2Config{DictCap: 4096}.NewWriter2(&buf)
			w.Write([]byte(text))
			w.Flush()
			w.Write([]byte(text))
			w.Close()
			f.Add(append([]byte{}, buf.Bytes()...))
		}
	}
	// small foreign streams
	ext := map[string]string{"xz": "*.xz", "lzma": "*.lzma"}[format]
	if ext != "" {
		files, _ := filepath.Glob(filepath.Join(corpusDir(), ext))
		for _, fn := range files {
			if b, err := os.ReadFile(fn); err == nil && len(b) < 400 {
				f.Add(b)
			}
		}
	}
	// hostile constants
	f.Add([]byte{})
	f.Add(bytes.Repeat([]byte{0xFF}, 64))
	f.Add(bytes.Repeat([]byte{0}, 64))
	switch format {
	case "lzma2":
		f.Add([]byte{0x01, 0xFF, 0xFF})
		f.Add([]byte{0xE0, 0xFF, 0xFF, 0xFF, 0xFF, 0x5D, 0, 0, 0, 0, 0})
		f.Add([]byte{0xFF, 0xFF, 0xFF, 0x00, 0x05, 0xE0, 0, 0xFF, 0xFF, 0xFF, 0xFF})
	case "lzma":
		f.Add([]byte{0x5D, 0, 0, 0x10, 0, 0xFF, 0xFF, 0xFF, 0xFF, 0xFF, 0xFF, 0xFF, 0x7F, 0, 0xFF, 0xFF, 0xFF, 0xFF})
		f.Add([]byte{0xE0, 0, 0x10, 0, 0, 5, 0, 0, 0, 0, 0, 0, 0, 0, 0, 0, 0, 0})
	}
}

func target(format string) func(t *testing.T, data []byte) {
	return func(t *testing.T, data []byte) {
		if hostile.DictTooLarge(format, data) {
			t.Skip()
		}
		readLen := 4096
		if len(data) > 0 && data[len(data)-1]&1 == 1 {
			readLen = 1 + int(data[len(data)-1])
		}
		// a Read call that never returns must fail the input, not hang the run
		done := make(chan hostile.Result, 1)
		go func() { done <- hostile.Read(format, data, readLen, 16<<20) }()
		var res hostile.Result
		select {
		case res = <-done:
		case <-time.After(40 * time.Second):
			t.Fatalf("%s reader did not return within 40 s on a %d-byte input (stall)", format, len(data))
		}
		if res.Fail != "" {
			t.Fatalf("%s", res.Fail)
		}
	}
}

func FuzzXZ(f *testing.F)    { seeds(f, "xz"); f.Fuzz(target("xz")) }
func FuzzLZMA(f *testing.F)  { seeds(f, "lzma"); f.Fuzz(target("lzma")) }
func FuzzLZMA2(f *testing.F) { seeds(f, "lzma2"); f.Fuzz(target("lzma2")) }
