// Package fault holds the I/O wrappers the checks inject: fragmenting and
// failing readers, failing writers.
package fault

import (
	"errors"
	"io"
	"runtime"
)

// Frag describes how a source hands out its data.
type Frag struct {
	Kind    string `json:"kind"`           // whole | one | lens
	Lens    []int  `json:"lens,omitempty"` // piece lengths, cycled (kind lens)
	EOFWith bool   `json:"eof_with_data"`  // return io.EOF together with the last bytes
	Yield   bool   `json:"yield,omitempty"`
}

// FragReader is an io.Reader over a byte slice that fragments its results.
type FragReader struct {
	Data  []byte
	F     Frag
	pos   int
	i     int
	Calls int
}

// NewFragReader returns a fragmenting reader.
func NewFragReader(data []byte, f Frag) *FragReader { return &FragReader{Data: data, F: f} }

// Pos returns the number of bytes handed out.
func (r *FragReader) Pos() int { return r.pos }

func (r *FragReader) Read(p []byte) (int, error) {
	r.Calls++
	if r.F.Yield {
		runtime.Gosched()
	}
	if r.pos >= len(r.Data) {
		return 0, io.EOF
	}
	if len(p) == 0 {
		return 0, nil
	}
	n := len(p)
	switch r.F.Kind {
	case "one":
		n = 1
	case "lens":
		if len(r.F.Lens) > 0 {
			l := r.F.Lens[r.i%len(r.F.Lens)]
			r.i++
			if l < 1 {
				l = 1
			}
			if l < n {
				n = l
			}
		}
	}
	if n > len(r.Data)-r.pos {
		n = len(r.Data) - r.pos
	}
	copy(p, r.Data[r.pos:r.pos+n])
	r.pos += n
	if r.pos == len(r.Data) && r.F.EOFWith {
		return n, io.EOF
	}
	return n, nil
}

// ErrInjected is the error the failing wrappers return.
var ErrInjected = errors.New("injected I/O failure")

// FailReader delivers Data[:K] and then fails with ErrInjected; with
// WithData the error accompanies the last bytes before K.
type FailReader struct {
	Data     []byte
	K        int
	WithData bool
	Piece    int // max bytes per call (0 = unlimited)
	pos      int
	Fired    bool
}

func (r *FailReader) Read(p []byte) (int, error) {
	if r.pos >= r.K {
		r.Fired = true
		return 0, ErrInjected
	}
	if len(p) == 0 {
		return 0, nil
	}
	n := len(p)
	if r.Piece > 0 && n > r.Piece {
		n = r.Piece
	}
	if n > r.K-r.pos {
		n = r.K - r.pos
	}
	copy(p, r.Data[r.pos:r.pos+n])
	r.pos += n
	if r.pos == r.K && r.WithData {
		r.Fired = true
		return n, ErrInjected
	}
	return n, nil
}

// FailWriter counts Write calls and fails call number K (0-based): once or
// from then on; with Partial it accepts half of the bytes of the failing call,
// with Full all of them (a complete count together with an error: a tee whose
// mirror failed, a device that reports the failure of an earlier flush).
type FailWriter struct {
	Buf     []byte
	K       int
	Forever bool
	Partial bool
	Full    bool
	Calls   int
	Fired   bool
	Lens    []int // length of every Write call seen
	Offs    []int // sink offset at the start of every Write call
}

func (w *FailWriter) Write(p []byte) (int, error) {
	i := w.Calls
	w.Calls++
	w.Lens = append(w.Lens, len(p))
	w.Offs = append(w.Offs, len(w.Buf))
	if w.K >= 0 && (i == w.K || (w.Forever && i > w.K)) {
		w.Fired = true
		n := 0
		if w.Partial {
			n = len(p) / 2
		}
		if w.Full {
			n = len(p)
		}
		w.Buf = append(w.Buf, p[:n]...)
		return n, ErrInjected
	}
	w.Buf = append(w.Buf, p...)
	return len(p), nil
}

// ByteFailWriter is a FailWriter that also implements io.ByteWriter (the
// classic LZMA writer then does not wrap it in a bufio.Writer); every
// WriteByte counts as a Write call.
type ByteFailWriter struct{ FailWriter }

// WriteByte writes one byte.
func (w *ByteFailWriter) WriteByte(c byte) error {
	_, err := w.Write([]byte{c})
	return err
}
