module verif

go 1.23

require (
	github.com/ulikunitz/xz v0.0.0
	pgregory.net/rapid v1.3.0
)

replace github.com/ulikunitz/xz => /repo
