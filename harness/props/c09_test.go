package props

import (
	"bytes"
	"errors"
	"fmt"
	"github.com/ulikunitz/xz"
	"io"
	"runtime/debug"
	"testing"

	"pgregory.net/rapid"

	"verif/ev"
	"verif/fault"
	"verif/gen"
	"verif/ref"
)

// caseC09 is a write scenario (history on one of the three writers) or a read
// scenario (a valid file) whose every fault point is enumerated.
type caseC09 struct {
	Side  string   `json:"side"` // write | read
	Fmt   string   `json:"fmt"`  // xz | lzma | lzma2
	XZ    *caseXZ  `json:"xz,omitempty"`
	L1    *caseC06 `json:"l1,omitempty"`
	L2    *caseC08 `json:"l2,omitempty"`
	Src   *gen.Src `json:"src,omitempty"`
	Piece int      `json:"piece,omitempty"` // read side: max bytes per source call
	// read side, xz: ReaderConfig.SingleStream (the reader then probes the
	// source for one more byte after the stream)
	Single bool `json:"single,omitempty"`
}

func drawC09(t *rapid.T) caseC09 {
	var c caseC09
	c.Side = rapid.SampledFrom([]string{"write", "read"}).Draw(t, "side")
	c.Fmt = rapid.SampledFrom([]string{"xz", "xz", "lzma", "lzma2"}).Draw(t, "fmt")
	if c.Side == "read" {
		// read-side runs are cheap: the classic format with its three
		// termination modes gets half of them
		c.Fmt = rapid.SampledFrom([]string{"xz", "lzma", "lzma", "lzma2"}).Draw(t, "rfmt")
		s := gen.DrawSrc(t, c.Fmt, 3000, "lib", "lib", "ref", "liblzma")
		cheapDict(&s)
		c.Src = &s
		c.Piece = rapid.SampledFrom([]int{0, 0, 1, 7, 64}).Draw(t, "piece")
		if c.Fmt == "xz" {
			c.Single = rapid.Bool().Draw(t, "singlestream")
		}
		return c
	}
	small := func(r gen.Recipe, max int) gen.Recipe {
		total := 0
		var out gen.Recipe
		for _, s := range r {
			if total+s.Len > max {
				s.Len = max - total
			}
			if s.Len > 0 {
				out = append(out, s)
				total += s.Len
			}
		}
		return out
	}
	switch c.Fmt {
	case "xz":
		x := drawXZCase(t)
		x.Data = small(x.Data, 20000)
		if bs := x.Cfg.EffBlock(); int64(x.Data.Len())/bs > 12 {
			x.Cfg.BlockSize = int64(x.Data.Len())/12 + 1
		}
		x.Tail = nil
		c.XZ = &x
	case "lzma":
		l := drawC06(t)
		if l.Mode == "short" || l.Mode == "surplus" {
			l.Mode = "marker"
			l.Cfg.SizeInHeader, l.Cfg.Size, l.Cfg.EOSMarker = false, 0, false
		}
		max := 30000
		if l.ByteSink {
			max = 600
		}
		l.Data = small(l.Data, max)
		if l.ByteSink && rapid.Bool().Draw(t, "repcycle") {
			// copies cycling through four distances: the rep1..rep3 branches of
			// the encoder, whose bits reach a byte-wise sink one call at a time
			r := gen.Recipe{{Kind: "random", Len: rapid.IntRange(170, 260).Draw(t, "rcpre"), Seed: rapid.Uint64().Draw(t, "rcseed")}}
			d := [4]int{rapid.IntRange(9, 30).Draw(t, "rcd0"), rapid.IntRange(40, 70).Draw(t, "rcd1"), rapid.IntRange(80, 120).Draw(t, "rcd2"), rapid.IntRange(130, 165).Draw(t, "rcd3")}
			for i, n := 0, rapid.IntRange(8, 40).Draw(t, "rcn"); i < n; i++ {
				r = append(r, gen.Seg{Kind: "copyback", Dist: d[rapid.IntRange(0, 3).Draw(t, "rcwhich")], Len: rapid.IntRange(3, 9).Draw(t, "rclen")})
				if rapid.IntRange(0, 3).Draw(t, "rclit") == 0 {
					r = append(r, gen.Seg{Kind: "random", Len: 1, Seed: uint64(i)})
				}
			}
			l.Data = r
		}
		if l.Cfg.SizeInHeader {
			l.Cfg.Size = int64(l.Data.Len())
		}
		c.L1 = &l
	case "lzma2":
		l := drawC08(t)
		if rapid.IntRange(0, 2).Draw(t, "rawthencompressed") == 0 {
			// an incompressible write (stored as uncompressed chunk) followed by
			// compressible data: a failed raw-chunk write must not wedge the writer
			rnd := gen.Seg{Kind: "random", Len: rapid.IntRange(50, 5000).Draw(t, "rlen"), Seed: rapid.Uint64().Draw(t, "rseed")}
			txt := gen.Seg{Kind: "text", K: 2, Len: rapid.IntRange(200, 8000).Draw(t, "tlen"), Seed: 3}
			l.Steps = []stepW2{{Op: "write", Seg: &rnd}}
			if rapid.Bool().Draw(t, "flushbetween") {
				l.Steps = append(l.Steps, stepW2{Op: "flush"})
			}
			l.Steps = append(l.Steps, stepW2{Op: "write", Seg: &txt}, stepW2{Op: "close"})
		}
		if rapid.IntRange(0, 3).Draw(t, "rawwrap") == 0 {
			// incompressible pieces, each flushed (so each is stored as an
			// uncompressed chunk), until more than twice DictCap+BufSize has
			// been written: some chunk's payload straddles the end of the
			// encoder's ring buffer and reaches the sink in two writes
			l.Cfg.DictCap = rapid.SampledFrom([]int{4096, 4096, 8192}).Draw(t, "wrapdict")
			l.Cfg.BufSize = rapid.SampledFrom([]int{273, 4096}).Draw(t, "wrapbuf")
			l.Cfg.Matcher = 0
			l.Steps = nil
			for tot := 0; tot < 2*(l.Cfg.DictCap+l.Cfg.BufSize)+3000; {
				seg := gen.Seg{Kind: "random", Len: rapid.IntRange(900, 3100).Draw(t, "wraplen"), Seed: rapid.Uint64().Draw(t, "wrapseed")}
				tot += seg.Len
				l.Steps = append(l.Steps, stepW2{Op: "write", Seg: &seg}, stepW2{Op: "flush"})
			}
			l.Steps = append(l.Steps, stepW2{Op: "close"})
		}
		total := 0
		for i := range l.Steps {
			if s := l.Steps[i].Seg; s != nil {
				l.Steps[i].More = nil
				if total+s.Len > 150000 {
					s.Len = 100
				}
				total += s.Len
			}
		}
		if rapid.IntRange(0, 7).Draw(t, "pending2mib") == 0 {
			// more than 2 MiB pending without a Flush: the chunk is written to
			// the sink from inside a Write call, and further Writes follow (a
			// failure there must leave the writer in a state that later calls
			// can be made in)
			l.Cfg = gen.Cfg{DefProps: true, DictCap: 65536}
			a := gen.Seg{Kind: "run", B: byte(rapid.IntRange(0, 255).Draw(t, "p2b")), Len: rapid.IntRange(1100000, 1300000).Draw(t, "p2a")}
			b := gen.Seg{Kind: "run", B: a.B, Len: rapid.IntRange(900000, 1100000).Draw(t, "p2b2")}
			x := gen.Seg{Kind: "text", K: 4, Len: rapid.IntRange(100, 6000).Draw(t, "p2c"), Seed: 5}
			l.Steps = []stepW2{{Op: "write", Seg: &a}, {Op: "write", Seg: &b}, {Op: "write", Seg: &x}, {Op: "close"}}
			l.Via = ""
		}
		c.L2 = &l
	}
	if c.XZ != nil && rapid.IntRange(0, 11).Draw(t, "xzpending2mib") == 0 {
		c.XZ.Cfg = gen.Cfg{DefProps: true, DictCap: 65536, CheckSum: 1}
		n1, n2 := rapid.IntRange(1100000, 1300000).Draw(t, "xp1"), rapid.IntRange(900000, 1100000).Draw(t, "xp2")
		c.XZ.Data = gen.Recipe{{Kind: "run", B: 9, Len: n1 + n2}, {Kind: "text", K: 4, Len: 3000, Seed: 6}}
		c.XZ.Part = gen.Partition{Kind: "cuts", Lens: []int{n1, n2}}
		c.XZ.Via, c.XZ.Prior = "", 0
	}
	return c
}

type callResult struct {
	name string
	err  error
}

// runWriteScenario replays the history against sink w; every call is made
// under recover. It returns the per-call results, the expected plaintext and a
// panic description.
func runWriteScenario(c caseC09, w io.Writer) (calls []callResult, data []byte, panicMsg string) {
	call := func(name string, f func() error) {
		defer func() {
			if r := recover(); r != nil {
				if panicMsg == "" {
					panicMsg = fmt.Sprintf("%s panicked: %v\n%s", name, r, debug.Stack())
				}
				calls = append(calls, callResult{name, fmt.Errorf("panic: %v", r)})
			}
		}()
		calls = append(calls, callResult{name, f()})
	}
	switch c.Fmt {
	case "xz":
		data = c.XZ.Data.Expand()
		var xw io.WriteCloser
		call("NewWriter", func() error {
			ww, err := c.XZ.Cfg.XZ().NewWriter(w)
			if err == nil {
				xw = ww
			}
			return err
		})
		if xw == nil {
			return
		}
		pos := 0
		for _, l := range c.XZ.Part.Split(len(data)) {
			p := data[pos : pos+l]
			pos += l
			call("Write", func() error { _, err := xw.Write(p); return err })
		}
		call("Close", xw.Close)
		if calls[len(calls)-1].err != nil {
			call("Close2", func() error { xw.Close(); return nil })
		}
	case "lzma":
		data = c.L1.Data.Expand()
		var lw io.WriteCloser
		call("NewWriter", func() error {
			ww, err := c.L1.Cfg.W1().NewWriter(w)
			if err == nil {
				lw = ww
			}
			return err
		})
		if lw == nil {
			return
		}
		pos := 0
		for _, l := range c.L1.Part.Split(len(data)) {
			p := data[pos : pos+l]
			pos += l
			call("Write", func() error { _, err := lw.Write(p); return err })
		}
		call("Close", lw.Close)
		if calls[len(calls)-1].err != nil {
			// a Close issued after the failure must not panic; after a successful
			// Close the stream is complete and nothing more is called (a second
			// Close of lzma.Writer flushes the range coder again, which no
			// property forbids)
			call("Close2", func() error { lw.Close(); return nil })
		}
	case "lzma2":
		type w2 interface {
			io.WriteCloser
			Flush() error
		}
		var lw w2
		call("NewWriter2", func() error {
			ww, err := c.L2.Cfg.W2().NewWriter2(w)
			if err == nil {
				lw = ww
			}
			return err
		})
		if lw == nil {
			return
		}
		closed := false
		for _, st := range c.L2.Steps {
			if closed {
				break
			}
			switch st.Op {
			case "write":
				p := st.payload()
				data = append(data, p...)
				call("Write", func() error { _, err := lw.Write(p); return err })
			case "write0":
				call("Write0", func() error { _, err := lw.Write(nil); return err })
			case "flush":
				call("Flush", lw.Flush)
			case "close":
				call("Close", lw.Close)
				closed = true
			}
		}
		failed := false
		for _, cr := range calls {
			failed = failed || cr.err != nil
		}
		if !closed {
			call("Close", lw.Close)
		} else if failed {
			call("Close2", func() error { lw.Close(); return nil })
		}
	}
	return
}

func decodeRef(format string, out []byte, dict uint32) ([]byte, error) {
	switch format {
	case "xz":
		r, err := ref.DecodeXZ(out)
		if err != nil {
			return nil, err
		}
		return r.Out, nil
	case "lzma":
		r, err := ref.DecodeLZMA(out)
		if err != nil {
			return nil, err
		}
		return r.Out, nil
	}
	r, err := ref.DecodeLZMA2(out, dict, true, nil, 0, 0, 0)
	if err != nil {
		return nil, err
	}
	if r.Consumed != len(out) {
		return nil, errors.New("trailing bytes")
	}
	return r.Out, nil
}

func checkC09(c caseC09, rec *ev.Rec) *ev.Failure {
	if c.Side == "read" {
		return checkC09Read(c, rec)
	}
	full := false // set by the enumeration below for its third way of failing
	newSink := func(k int, forever, partial bool) (io.Writer, *fault.FailWriter) {
		if c.Fmt == "lzma" && c.L1.ByteSink {
			b := &fault.ByteFailWriter{FailWriter: fault.FailWriter{K: k, Forever: forever, Partial: partial, Full: full}}
			return b, &b.FailWriter
		}
		fw := &fault.FailWriter{K: k, Forever: forever, Partial: partial, Full: full}
		return fw, fw
	}
	dict := uint32(4096)
	if c.Fmt == "lzma2" {
		dict = uint32(c.L2.Cfg.EffDict())
	}
	// clean run
	sink, fw := newSink(-1, false, false)
	calls, data, pm := runWriteScenario(c, sink)
	if pm != "" {
		rec.Class("clean_run_panics(other property)")
		return nil
	}
	for _, cr := range calls {
		if cr.err != nil {
			rec.Class("clean_run_fails(other property)")
			return nil
		}
	}
	if got, err := decodeRef(c.Fmt, fw.Buf, dict); err != nil || !bytes.Equal(got, data) {
		rec.Class("clean_run_invalid(other property)")
		return nil
	}
	W := fw.Calls
	cleanLens, cleanOffs := fw.Lens, fw.Offs
	var lay *ref.Layout
	if c.Fmt == "xz" {
		if res, err := ref.DecodeXZ(fw.Buf); err == nil {
			lay = &res.Layout
		}
	}
	for k := 0; k < W; k++ {
		for _, forever := range []bool{false, true} {
			for way, partial := range []bool{false, true, false} {
				if partial && cleanLens[k] < 2 {
					continue
				}
				// third way: the failing call reports the complete count
				// together with the error
				full = way == 2
				if full && (forever || cleanLens[k] == 0) {
					continue
				}
				rec.Eval(1)
				sink, fw := newSink(k, forever, partial)
				calls, _, pm := runWriteScenario(c, sink)
				region := "n/a"
				if lay != nil {
					region = regionAt(lay, cleanOffs[k])
				}
				mode := fmt.Sprintf("forever=%v,partial=%v", forever, partial)
				if full {
					mode = "once,all bytes taken and an error returned"
				}
				sig := []string{"side", "write", "fmt", c.Fmt}
				if pm != "" {
					return ev.Fail(fmt.Sprintf("%s writer: sink write #%d of %d (%s, while writing %s) fails -> %s", c.Fmt, k, W, mode, region, pm),
						append(sig, "result", "panic", "site", panicSite(pm))...)
				}
				anyErr := ""
				for _, cr := range calls {
					if cr.err != nil && cr.name != "Close2" {
						anyErr = cr.name
						break
					}
				}
				if fw.Fired && anyErr == "" {
					return ev.Fail(fmt.Sprintf("%s writer: sink write #%d of %d (%s, while writing %s) failed but every call (%s) returned nil", c.Fmt, k, W, mode, region, callNames(calls)),
						append(sig, "result", "masked", "region", region)...)
				}
				if anyErr == "" {
					if got, err := decodeRef(c.Fmt, fw.Buf, dict); err != nil || !bytes.Equal(got, data) {
						return ev.Fail(fmt.Sprintf("%s writer: all calls returned nil but the sink does not hold a complete valid stream: %v", c.Fmt, err), append(sig, "result", "success_without_stream")...)
					}
				}
				if fw.Fired && k > 0 {
					rec.Class("wfault@" + c.Fmt + ":" + region)
					rec.NonTrivial(ev.Hash64(caseHash(c), k, forever, partial, full))
					if full {
						rec.Class("wfault_full_count_with_error")
					}
				}
			}
		}
	}
	rec.Class("side=write", "fmt="+c.Fmt)
	rec.Sample("w"+c.Fmt, map[string]any{"side": "write", "fmt": c.Fmt, "sink_writes": W, "data_len": len(data), "calls": callNames(calls)})
	return nil
}

func callNames(c []callResult) string {
	s := ""
	last, n := "", 0
	flush := func() {
		if last == "" {
			return
		}
		if s != "" {
			s += " "
		}
		s += last
		if n > 1 {
			s += fmt.Sprintf("x%d", n)
		}
	}
	for _, x := range c {
		if x.name == last {
			n++
			continue
		}
		flush()
		last, n = x.name, 1
	}
	flush()
	return s
}

func checkC09Read(c caseC09, rec *ev.Rec) *ev.Failure {
	b, err := c.Src.Build()
	if err != nil {
		rec.Incomplete("stream construction: " + err.Error())
		return nil
	}
	lay, err := layoutOf(c.Fmt, b)
	if err != nil {
		rec.Incomplete("reference decoder disagrees: " + err.Error())
		return nil
	}
	dict := readerDict(c.Fmt, b)
	if got, err := decodeAll(c.Fmt, b.Stream, dict); err != nil || !bytes.Equal(got, b.Content) {
		rec.Class("intact_not_decoded(other property)")
		return nil
	}
	L := len(b.Stream)
	for k := 0; k <= L; k++ {
		for _, with := range []bool{false, true} {
			if with && (k == 0 || k == L) {
				// k == L with data: the complete file has been delivered
				// (io.Reader may return the final bytes together with an
				// error); a reader that needs nothing more never asks again.
				continue
			}
			rec.Eval(1)
			src := &fault.FailReader{Data: b.Stream, K: k, WithData: with, Piece: c.Piece}
			var got []byte
			var rerr error
			var pm string
			func() {
				defer func() {
					if r := recover(); r != nil {
						pm = fmt.Sprintf("panic: %v\n%s", r, debug.Stack())
					}
				}()
				var r io.Reader
				var err error
				if c.Single {
					r, err = xz.ReaderConfig{DictCap: dict, SingleStream: true}.NewReader(src)
				} else {
					r, err = openReader(c.Fmt, src, dict)
				}
				if err != nil {
					rerr = err
					return
				}
				got, rerr = io.ReadAll(r)
			}()
			region := regionAt(lay, k)
			sig := []string{"side", "read", "fmt", c.Fmt}
			if pm != "" {
				return ev.Fail(fmt.Sprintf("%s reader: source fails at offset %d of %d (in %s) -> %s", c.Fmt, k, L, region, pm), append(sig, "result", "panic", "site", panicSite(pm))...)
			}
			if !src.Fired {
				// the reader finished without touching the failing part
				if rerr != nil || !bytes.Equal(got, b.Content) {
					return ev.Fail(fmt.Sprintf("%s reader: fault at %d of %d not reached, yet result differs: err %v", c.Fmt, k, L, rerr), append(sig, "result", "unfired_differs")...)
				}
				rec.Class("rfault_not_reached")
				continue
			}
			if rerr == nil {
				return ev.Fail(fmt.Sprintf("%s reader: source fails at offset %d of %d (in %s, with data=%v, piece %d) but reading ends cleanly with %d of %d bytes", c.Fmt, k, L, region, with, c.Piece, len(got), len(b.Content)),
					append(sig, "result", "clean_eof", "region", region)...)
			}
			if !errors.Is(rerr, fault.ErrInjected) {
				return ev.Fail(fmt.Sprintf("%s reader: source fails at offset %d of %d (in %s, with data=%v) but the reader reports a different error: %v", c.Fmt, k, L, region, with, rerr),
					append(sig, "result", "other_error", "region", region, "err", rerr.Error())...)
			}
			if k > 0 {
				rec.Class("rfault@" + c.Fmt + ":" + region)
				rec.NonTrivial(ev.Hash64(b.Stream, k, with, c.Piece))
			}
		}
	}
	rec.Class("side=read", "fmt="+c.Fmt, "read:"+c.Fmt+":origin="+c.Src.Origin)
	if c.Single {
		rec.Class("read:xz:SingleStream")
	}
	if c.Fmt == "lzma" {
		mode := c.Src.SizeMode
		if c.Src.Origin == "lib" {
			mode = 0
			if c.Src.Cfg.SizeInHeader {
				mode = 1
				if c.Src.Cfg.EOSMarker {
					mode = 2
				}
			}
		}
		rec.Class(fmt.Sprintf("read:lzma:termination=%d", mode)) // 0 marker, 1 size, 2 size+marker
	}
	rec.Sample("r"+c.Fmt, map[string]any{"side": "read", "fmt": c.Fmt, "origin": c.Src.Origin, "file_len": L, "piece": c.Piece})
	return nil
}

func TestC09(t *testing.T) {
	rec := ev.New("C09", "fault_enumeration")
	rec.Rule = "enumerated first: an LZMA2 and an xz history with more than 2 MiB pending and further Writes; then write side: rapid draws a history on the xz / LZMA / LZMA2 writer (configurations, data, partitions, Flush points, sinks with and without WriteByte); a clean run counts the W sink writes; EVERY k < W x {fail once, fail forever} x {no bytes, half of the bytes accepted} is replayed to the end incl. a second Close, every call under recover; oracle: no panic; fault fired => some call returned an error; all calls nil => the sink holds a complete stream the reference decoder maps to the input. Read side: valid files of the three formats x EVERY source offset k in 0..len x {error alone, error together with the last bytes} x piece sizes; oracle: fault reached => error wrapping the injected one, never clean EOF, no panic; evaluations = fault runs; non-trivial = fault fired and k > 0; distinct = hash(scenario, k, mode)"
	rec.Assumptions = []string{"fault writers obey the io.Writer contract (n < len(p) implies err != nil)", "after the first error the remaining calls are still issued; only panics count then"}
	// more than 2 MiB pending without Flush, then further Writes: the chunk
	// is written to the sink from inside Write (see drawC09); one LZMA2 and
	// one xz history deterministically, before the random cases
	enumerate(t, rec, checkC09, func(try func(caseC09) bool) {
		a := gen.Seg{Kind: "run", B: 7, Len: 1200000}
		b := gen.Seg{Kind: "run", B: 7, Len: 1000000}
		x := gen.Seg{Kind: "text", K: 4, Len: 3000, Seed: 5}
		cases := []caseC09{
			{Side: "write", Fmt: "lzma2", L2: &caseC08{Cfg: gen.Cfg{DefProps: true, DictCap: 65536}, Steps: []stepW2{{Op: "write", Seg: &a}, {Op: "write", Seg: &b}, {Op: "write", Seg: &x}, {Op: "close"}}}},
			{Side: "write", Fmt: "xz", XZ: &caseXZ{Cfg: gen.Cfg{DefProps: true, DictCap: 65536, CheckSum: 1}, Data: gen.Recipe{{Kind: "run", B: 9, Len: 2200000}, {Kind: "text", K: 4, Len: 3000, Seed: 6}}, Part: gen.Partition{Kind: "cuts", Lens: []int{1200000, 1000000}}}},
		}
		for i, c := range cases {
			if i%rec.Shards != rec.Shard {
				continue
			}
			rec.Class("pending_2MiB_then_write")
			if !try(c) {
				return
			}
		}
	})
	if t.Failed() {
		return
	}
	drive(t, rec, drawC09, checkC09)
}
