package props

import (
	"bytes"
	"fmt"
	"io"
	"testing"

	"github.com/ulikunitz/xz/lzma"
	"pgregory.net/rapid"

	"verif/ev"
	"verif/gen"
	"verif/liblz"
	"verif/ref"
)

// caseC07 is either a writer-side case (library output judged by others) or
// a reader-side case (foreign stream decoded by the library).
type caseC07 struct {
	Side     string  `json:"side"` // writer | reader
	W        caseC06 `json:"w,omitempty"`
	Src      gen.Src `json:"src,omitempty"`
	DictCaps []int   `json:"dictcaps,omitempty"`
}

func drawC07(t *rapid.T) caseC07 {
	var c caseC07
	if rapid.IntRange(0, 2).Draw(t, "side") == 0 {
		c.Side = "writer"
		c.W = drawC06(t)
		if !c.W.Cfg.DefProps && c.W.Cfg.LC+c.W.Cfg.LP > 4 {
			c.W.Cfg.LP = 4 - c.W.Cfg.LC
			if c.W.Cfg.LP < 0 {
				c.W.Cfg.LC, c.W.Cfg.LP = 4, 0
			}
		}
		if c.W.Mode == "short" {
			c.W.Mode = "size"
			c.W.Cfg.Size = int64(c.W.Data.Len())
			c.W.Cfg.EOSMarker = false
		}
		return c
	}
	c.Side = "reader"
	max := 40000
	if ev.Thorough() {
		max = 300000
	}
	c.Src = gen.DrawSrc(t, "lzma", max, "ref", "ref", "ref", "liblzma", "liblzma", "corpus")
	c.DictCaps = []int{4096, 0}
	if rapid.Bool().Draw(t, "moredict") {
		c.DictCaps = append(c.DictCaps, rapid.SampledFrom([]int{4097, 8192, 65535, 65536, 1 << 20}).Draw(t, "dictcap"))
	}
	return c
}

func checkC07(c caseC07, rec *ev.Rec) *ev.Failure {
	if c.Side == "writer" {
		return checkC07w(c.W, rec)
	}
	b, err := c.Src.Build()
	if err != nil {
		rec.Incomplete("stream construction failed: " + err.Error())
		return nil
	}
	res, err := ref.DecodeLZMA(b.Stream)
	if err != nil || !bytes.Equal(res.Out, b.Content) {
		rec.Incomplete(fmt.Sprintf("reference decoder disagrees with the constructed stream (%s): %v", c.Src.Origin, err))
		return nil
	}
	if liblz.Available && res.Props.LC+res.Props.LP <= 4 && validAloneDict(res.DictSize) {
		got, err := liblz.DecodeAlone(b.Stream)
		if err != nil || !bytes.Equal(got, b.Content) {
			rec.Incomplete(fmt.Sprintf("liblzma disagrees with the reference decoder on a %s stream: %v", c.Src.Origin, err))
			return nil
		}
		rec.Class("cross_checked_by_liblzma")
	}
	mode := "marker"
	if res.SizeField >= 0 {
		mode = "size"
		if res.Marker {
			mode = "size+marker"
		}
	}
	hs := ev.Hash64(b.Stream)
	for _, dc := range c.DictCaps {
		if hs%3 == 0 {
			// an earlier reader of the same configuration that failed or was
			// abandoned must not influence this one
			priorDecode("lzma", b.Stream, dc, []string{"trunc", "flip", "abandon"}[hs/3%3], int(200+hs%750))
			rec.Class("after_earlier_reader")
		}
		r, err := lzma.ReaderConfig{DictCap: dc}.NewReader(sourceFor(b.Stream))
		if err != nil {
			return ev.Fail(fmt.Sprintf("NewReader(DictCap %d) rejects a valid %s stream (%s, %d bytes content): %v", dc, c.Src.Origin, mode, len(b.Content), err),
				"side", "reader", "stage", "open", "mode", mode, "err", err.Error(), "n0", fmt.Sprint(len(b.Content) == 0))
		}
		got, err := io.ReadAll(r)
		if err != nil {
			return ev.Fail(fmt.Sprintf("reader (DictCap %d) fails on a valid %s stream (%s) after %d of %d bytes: %v", dc, c.Src.Origin, mode, len(got), len(b.Content), err),
				"side", "reader", "stage", "read", "mode", mode, "err", err.Error(), "n0", fmt.Sprint(len(b.Content) == 0))
		}
		if !bytes.Equal(got, b.Content) {
			return ev.Fail(fmt.Sprintf("reader (DictCap %d) decodes a valid %s stream to different bytes (first difference at %d of %d)", dc, c.Src.Origin, firstDiff(got, b.Content), len(b.Content)),
				"side", "reader", "stage", "compare")
		}
	}
	rec.Class("side=reader", "origin="+c.Src.Origin, "mode="+mode)
	if res.Props.LC+res.Props.LP > 4 {
		rec.Class("lc+lp>4")
	}
	if res.DictSize < 4096 {
		rec.Class("header_dict<4096")
	}
	if len(b.Content) == 0 {
		rec.Class("empty_content")
	}
	k := statClasses(rec, &res.Stats)
	if k > 0 || mode != "marker" {
		rec.NonTrivial(ev.Hash64(b.Stream))
	}
	rec.Sample("r"+c.Src.Origin+mode, map[string]any{"side": "reader", "src": c.Src, "mode": mode, "stream_len": len(b.Stream), "content_len": len(b.Content)})
	return nil
}

func TestC07(t *testing.T) {
	rec := ev.New("C07", "exploration")
	rec.Rule = "writer side (1/3 of the cases): the C06 generator restricted to lc+lp <= 4; the emitted stream is decoded by the reference decoder (and liblzma when the header dictionary size is one liblzma accepts), header properties == configuration, header dictionary >= max distance, size field / end marker exactly as configured. Reader side (2/3): streams from the specification-driven generator (arbitrary legal operation lists, all three termination modes, any lc/lp/pb incl. lc+lp > 4, header dictionary fields 0/1/4095/4096..., empty content), liblzma (alone encoder and LZMA1EXT with known size, marker on/off) and the corpus (xz-utils, LZMA SDK samples) x ReaderConfig.DictCap variants; the library must return the constructed bytes and clean EOF; non-trivial: writer = non-empty with a match; reader = a match/rep class or a non-default termination mode; distinct = hash of case / stream"
	rec.Assumptions = []string{"lc+lp > 4 streams are judged by the reference implementation and construction only (liblzma refuses them)", "a disagreement between reference decoder, liblzma and constructed plaintext is inconclusive, never reported"}
	// volume, judged by the OTHER implementations: a deviation from the format
	// that encoder and decoder of the library share (a normalisation skipped at
	// one exact value of the range, say) survives every round trip of the
	// library and shows only to a foreign decoder, once in millions of
	// operations. One long input per shard, rich in matches at distances >= 128
	// (their low bits are coded with fixed probabilities), written by the
	// classic writer and decoded by the reference decoder and liblzma.
	enumerate(t, rec, checkC07, func(try func(caseC07) bool) {
		n := 12 << 20
		if ev.Thorough() {
			n = 96 << 20
		}
		w := caseC06{Cfg: gen.Cfg{DefProps: true, DictCap: 65536, EOSMarker: true}, Mode: "marker", ByteSink: true, Part: gen.Partition{Kind: "cuts", Lens: []int{1 << 20, 3 << 20}},
			Data: gen.Recipe{{Kind: "mix", Len: n, K: 40, Dist: 65536, Seed: 8800 + uint64(rec.Shard) + 1000*uint64(rec.Seed)}}}
		rec.Class("volume_case_foreign_decoders")
		try(caseC07{Side: "writer", W: w})
	})
	if t.Failed() {
		return
	}
	drive(t, rec, drawC07, checkC07)
}
