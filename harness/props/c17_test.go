package props

import (
	"bytes"
	"fmt"
	"io"
	"testing"

	"pgregory.net/rapid"

	"verif/ev"
	"verif/gen"
)

// caseC17 is a member of one of the three input families of C17.
type caseC17 struct {
	Family string  `json:"family"` // run | xx | random
	Fmt    string  `json:"fmt"`    // xz | lzma2 | lzma
	Cfg    gen.Cfg `json:"cfg"`
	N      int     `json:"n"` // run length, |X|, or random length
	B      byte    `json:"b,omitempty"`
	Seed   uint64  `json:"seed,omitempty"`
	// Piece > 0: the input is handed over in Write calls of Piece bytes (the
	// statement only excludes intermediate Flush calls)
	Piece int `json:"piece,omitempty"`
}

func drawC17(t *rapid.T) caseC17 {
	var c caseC17
	c.Family = rapid.SampledFrom([]string{"run", "xx", "xx", "random"}).Draw(t, "family")
	if c.Family == "random" {
		c.Fmt = rapid.SampledFrom([]string{"xz", "lzma2"}).Draw(t, "fmt")
	} else {
		c.Fmt = rapid.SampledFrom([]string{"xz", "lzma2", "lzma"}).Draw(t, "fmt")
	}
	gen.DrawProps(t, &c.Cfg, c.Fmt != "lzma")
	c.Cfg.Matcher = rapid.IntRange(0, 1).Draw(t, "matcher")
	c.Cfg.BufSize = rapid.SampledFrom(gen.BufSizes).Draw(t, "bufsize")
	big := 1 << 20
	if ev.Thorough() {
		big = 6 << 20
	}
	switch c.Family {
	case "run":
		c.Cfg.DictCap = rapid.SampledFrom(gen.DictCaps).Draw(t, "dictcap")
		c.B = rapid.Byte().Draw(t, "b")
		max := big
		if c.Cfg.Matcher == 1 {
			max = 12000 // the BinaryTree matcher is quadratic on runs
			if ev.Thorough() {
				max = 30000
			}
		}
		c.N = rapid.SampledFrom([]int{0, 1, 100, 4096, 5000, max / 3, max}).Draw(t, "nclass")
		if c.N > 100 {
			c.N = rapid.IntRange(c.N/2, c.N).Draw(t, "n")
		}
	case "xx":
		c.Cfg.DictCap = rapid.SampledFrom([]int{4096, 4097, 6000, 8192, 65535, 65536, 1 << 17, 1 << 20}).Draw(t, "dictcap")
		c.Seed = rapid.Uint64().Draw(t, "seed")
		switch rapid.IntRange(0, 3).Draw(t, "xclass") {
		case 0:
			c.N = rapid.IntRange(4, 4096).Draw(t, "n")
		case 1:
			c.N = c.Cfg.DictCap - rapid.IntRange(0, 300).Draw(t, "below")
		default:
			c.N = rapid.IntRange(4096, c.Cfg.DictCap).Draw(t, "n")
		}
		if c.N > c.Cfg.DictCap {
			c.N = c.Cfg.DictCap
		}
	case "random":
		c.Cfg.DictCap = rapid.SampledFrom([]int{65536, 65537, 1 << 17, 1 << 20, 0}).Draw(t, "dictcap")
		if c.Cfg.DictCap == 0 {
			c.Cfg.Matcher = 0
		}
		c.Seed = rapid.Uint64().Draw(t, "seed")
		c.N = rapid.SampledFrom([]int{0, 100, 5000, 65536, 70000, 200000, big}).Draw(t, "nclass")
		if c.N > 100 {
			c.N = rapid.IntRange(c.N/2, c.N).Draw(t, "n")
		}
	}
	if rapid.Bool().Draw(t, "pieces") {
		c.Piece = rapid.SampledFrom([]int{1, 7, 256, 1000, 4096, 32768, 65536, 100000}).Draw(t, "piece")
		if c.Piece < 7 && c.N > 150000 {
			c.Piece = 7
		}
	}
	if c.Fmt == "xz" {
		total := int64(c.N)
		if c.Family == "xx" {
			total *= 2
			c.Cfg.BlockSize = rapid.SampledFrom([]int64{0, total, total + 1, 4 * total}).Draw(t, "blocksize")
		} else {
			// The statement quantifies over dictionary, look-ahead, lc/lp/pb and
			// match finder; block splitting is only varied with blocks of at
			// least 64 KiB, for which the per-block allowance of 64 bytes plus
			// n/500 covers block header, chunk headers, SHA-256 and index record
			// (with 4 KiB blocks and SHA-256 the container overhead alone is ~50
			// bytes per block and the bound cannot hold whatever the matcher does).
			c.Cfg.BlockSize = rapid.SampledFrom([]int64{0, 0, 65536, 100000, 1 << 20}).Draw(t, "blocksize")
		}
		switch rapid.IntRange(0, 3).Draw(t, "check") {
		case 0:
			c.Cfg.CheckSum = 1
		case 1:
			c.Cfg.CheckSum = 4
		case 2:
			c.Cfg.CheckSum = 10
		case 3:
			c.Cfg.NoCheckSum = true
		}
	}
	return c
}

func (c caseC17) input() []byte {
	switch c.Family {
	case "run":
		return bytes.Repeat([]byte{c.B}, c.N)
	case "xx":
		x := make([]byte, c.N)
		gen.NewPRNG(c.Seed).Fill(x)
		return append(x, x...)
	}
	x := make([]byte, c.N)
	gen.NewPRNG(c.Seed).Fill(x)
	return x
}

// writePieces hands data to w in Write calls of piece bytes (0: one call).
func writePieces(w io.Writer, data []byte, piece int) error {
	if piece <= 0 {
		_, err := w.Write(data)
		return err
	}
	for len(data) > 0 {
		k := min(piece, len(data))
		if _, err := w.Write(data[:k]); err != nil {
			return err
		}
		data = data[k:]
	}
	return nil
}

func compressWith(format string, cfg gen.Cfg, data []byte, piece int) ([]byte, error) {
	var buf bytes.Buffer
	switch format {
	case "xz":
		w, err := cfg.XZ().NewWriter(&buf)
		if err != nil {
			return nil, err
		}
		if err := writePieces(w, data, piece); err != nil {
			return nil, err
		}
		if err := w.Close(); err != nil {
			return nil, err
		}
	case "lzma2":
		w, err := cfg.W2().NewWriter2(&buf)
		if err != nil {
			return nil, err
		}
		if err := writePieces(w, data, piece); err != nil {
			return nil, err
		}
		if err := w.Close(); err != nil {
			return nil, err
		}
	case "lzma":
		w, err := cfg.W1().NewWriter(&buf)
		if err != nil {
			return nil, err
		}
		if err := writePieces(w, data, piece); err != nil {
			return nil, err
		}
		if err := w.Close(); err != nil {
			return nil, err
		}
	}
	return buf.Bytes(), nil
}

func checkC17(c caseC17, rec *ev.Rec) *ev.Failure {
	data := c.input()
	out, err := compressWith(c.Fmt, c.Cfg, data, c.Piece)
	if err != nil {
		rec.Class("write_fails(other property)")
		return nil
	}
	n := int64(len(data))
	blocks := int64(1)
	if c.Fmt == "xz" && c.Cfg.BlockSize > 0 && n > 0 {
		blocks = (n + c.Cfg.BlockSize - 1) / c.Cfg.BlockSize
	}
	allowance := 128 + 64*blocks
	var bound int64
	switch c.Family {
	case "run":
		bound = n/500 + allowance
	case "xx":
		bound = int64(float64(c.N)*1.15) + allowance
	case "random":
		bound = n + n/500 + allowance
	}
	m := matcherName(c.Cfg.Matcher)
	if int64(len(out)) > bound {
		return ev.Fail(fmt.Sprintf("family %s, %s, matcher %s, DictCap %d, BufSize %d, BlockSize %d: input %d bytes (N=%d) compressed to %d bytes, bound %d", c.Family, c.Fmt, m, c.Cfg.EffDict(), c.Cfg.EffBuf(), c.Cfg.BlockSize, n, c.N, len(out), bound),
			"family", c.Family, "matcher", m, "fmt", c.Fmt)
	}
	rec.Class("family="+c.Family, "matcher="+m, "fmt="+c.Fmt, "family="+c.Family+",matcher="+m)
	if c.Piece > 0 {
		rec.Class("written_in_pieces", fmt.Sprintf("piece=%d", c.Piece))
	}
	if c.Family == "xx" && c.N >= c.Cfg.DictCap-300 {
		rec.Class("xx_at_dictionary_edge")
	}
	if n >= 4096 {
		rec.NonTrivial(caseHash(c))
		// smallest distance to the bound seen (evidence of slack), in bytes
		slack := bound - int64(len(out))
		key := "min_slack_bytes_" + c.Family + "_" + m
		if v, ok := rec.Extra[key].(int64); !ok || slack < v {
			rec.Extra[key] = slack
			rec.Extra["min_slack_case_"+c.Family+"_"+m] = fmt.Sprintf("%s n=%d dict=%d buf=%d block=%d check=%d out=%d bound=%d", c.Fmt, n, c.Cfg.EffDict(), c.Cfg.EffBuf(), c.Cfg.BlockSize, c.Cfg.EffCheck(), len(out), bound)
		}
	}
	rec.Sample(c.Family+m, map[string]any{"case": c, "in_len": n, "out_len": len(out), "bound": bound})
	return nil
}

func TestC17(t *testing.T) {
	rec := ev.New("C17", "exploration")
	rec.Rule = "rapid draws members of the three families of the statement: (a) runs of any byte value and length (BinaryTree within its work budget) under drawn lc/lp/pb, DictCap, BufSize, BlockSize, check, all three formats; (b) X||X for pseudo-random X from a drawn seed, 4 <= |X| <= DictCap incl. |X| within 300 bytes of DictCap, single block; (c) pseudo-random data with DictCap >= 64 KiB, xz and LZMA2 without Flush; half the cases hand the input over in Write calls of 1 to 100000 bytes; oracle: out <= n/500 + A, out <= 1.15|X| + A, out <= n + n/500 + A with A = 128 + 64 per block; non-trivial = input >= 4096 bytes; distinct = hash of the case"
	rec.Assumptions = []string{"BinaryTree runs <= 12000 bytes (quick) / 30000 (thorough)", "xz block sizes are 0 (single block) or >= 64 KiB for families a and c: the statement does not quantify over block sizes, and with tiny blocks the container overhead per block (header 12 + SHA-256 32 + index record) alone exceeds the allowance"}
	if ev.Thorough() {
		// X||X with |X| just beyond 16 MiB under a 32 MiB dictionary (presets
		// -8/-9 of gxz): distances that need more than 24 bits; one case per
		// match finder, thorough tier only (a minute each)
		enumerate(t, rec, checkC17, func(try func(caseC17) bool) {
			for i, m := range []int{0, 1} {
				if i%rec.Shards != rec.Shard {
					continue
				}
				rec.Class("xx_beyond_16MiB")
				if !try(caseC17{Family: "xx", Fmt: "xz", Cfg: gen.Cfg{DefProps: true, DictCap: 32 << 20, Matcher: m, CheckSum: 1}, N: 16<<20 + 70000, Seed: uint64(77 + i)}) {
					return
				}
			}
		})
		if t.Failed() {
			return
		}
	}
	drive(t, rec, drawC17, checkC17)
}
