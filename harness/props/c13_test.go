package props

import (
	"bytes"
	"fmt"
	"io"
	"testing"

	"pgregory.net/rapid"

	"verif/ev"
	"verif/fault"
	"verif/gen"
)

// caseC13 is a valid file, a schedule of Read buffer lengths (cycled) and a
// fragmentation of the source.
type caseC13 struct {
	Fmt   string     `json:"fmt"`
	Srcs  []gen.Src  `json:"srcs"`
	Pads  []int      `json:"pads,omitempty"`
	Reads []int      `json:"reads"`
	Frag  fault.Frag `json:"frag"`
}

var readLens = []int{0, 1, 1, 2, 3, 7, 272, 273, 274, 4095, 4096, 4097, 65536, 100000}

func drawC13(t *rapid.T) caseC13 {
	var c caseC13
	c.Fmt = rapid.SampledFrom([]string{"xz", "xz", "lzma2", "lzma"}).Draw(t, "fmt")
	n := 1
	if c.Fmt == "xz" && rapid.IntRange(0, 2).Draw(t, "multi") == 0 {
		n = rapid.IntRange(2, 3).Draw(t, "nstreams")
	}
	max := 6000
	if rapid.IntRange(0, 7).Draw(t, "big") == 0 {
		max = 150000
	}
	for i := 0; i < n; i++ {
		c.Srcs = append(c.Srcs, gen.DrawSrc(t, c.Fmt, max, "lib", "lib", "ref", "ref", "liblzma", "corpus"))
		if n > 1 {
			c.Pads = append(c.Pads, 4*rapid.IntRange(0, 2).Draw(t, "pad"))
		}
	}
	c.Reads = rapid.SliceOfN(rapid.SampledFrom(readLens), 1, 6).Draw(t, "reads")
	nonzero := false
	for _, l := range c.Reads {
		if l > 0 {
			nonzero = true
		}
	}
	if !nonzero {
		c.Reads = append(c.Reads, rapid.SampledFrom([]int{1, 7, 4096}).Draw(t, "nz"))
	}
	c.Frag.Kind = rapid.SampledFrom([]string{"whole", "one", "lens", "lens"}).Draw(t, "frag")
	if c.Frag.Kind == "lens" {
		c.Frag.Lens = rapid.SliceOfN(rapid.SampledFrom([]int{1, 1, 2, 3, 4, 5, 11, 12, 13, 100, 4096}), 1, 5).Draw(t, "fraglens")
	}
	c.Frag.EOFWith = rapid.Bool().Draw(t, "eofwith")
	return c
}

func checkC13(c caseC13, rec *ev.Rec) *ev.Failure {
	a, err := assemble(c.Fmt, c.Srcs, c.Pads)
	if err != nil {
		rec.Incomplete("stream construction: " + err.Error())
		return nil
	}
	if got, err := decodeAll(c.Fmt, a.data, a.dict); err != nil || !bytes.Equal(got, a.content) {
		rec.Class("plain_read_fails(other property)")
		return nil
	}
	src := fault.NewFragReader(a.data, c.Frag)
	sig := []string{"fmt", c.Fmt}
	r, err := openReader(c.Fmt, src, a.dict)
	if err != nil {
		return ev.Fail(fmt.Sprintf("opening a valid %s file over a fragmenting source (%+v) fails: %v", c.Fmt, c.Frag, err), append(sig, "stage", "open", "err", err.Error())...)
	}
	var got []byte
	buf := make([]byte, 100000)
	eof := false
	idle := 0
	zeroReads := 0
	for i := 0; !eof; i++ {
		l := c.Reads[i%len(c.Reads)]
		p := buf[:l]
		n, err := r.Read(p)
		if n < 0 || n > l {
			return ev.Fail(fmt.Sprintf("Read(len %d) returned n=%d", l, n), append(sig, "stage", "read", "result", "n_out_of_range")...)
		}
		got = append(got, p[:n]...)
		if l == 0 {
			zeroReads++
		}
		switch {
		case err == io.EOF:
			if len(got) != len(a.content) {
				return ev.Fail(fmt.Sprintf("%s reader: Read(len %d) returned io.EOF after %d of %d bytes (read #%d)", c.Fmt, l, len(got), len(a.content), i),
					append(sig, "stage", "read", "result", "early_eof", "buflen0", fmt.Sprint(l == 0))...)
			}
			eof = true
		case err != nil:
			return ev.Fail(fmt.Sprintf("%s reader: Read(len %d) fails after %d of %d bytes under schedule %v / fragmentation %+v: %v", c.Fmt, l, len(got), len(a.content), c.Reads, c.Frag, err),
				append(sig, "stage", "read", "result", "error", "err", err.Error())...)
		}
		if n == 0 && l > 0 && err == nil {
			idle++
			if idle > 1000 {
				return ev.Fail("1000 consecutive (0, nil) results for non-empty buffers", append(sig, "stage", "read", "result", "stall")...)
			}
		} else if n > 0 {
			idle = 0
		}
		if len(got) > len(a.content) {
			break
		}
	}
	if !bytes.Equal(got, a.content) {
		return ev.Fail(fmt.Sprintf("%s reader under schedule %v / fragmentation %+v delivers %d bytes, want %d, first difference at %d", c.Fmt, c.Reads, c.Frag, len(got), len(a.content), firstDiff(got, a.content)),
			append(sig, "stage", "compare", "result", "wrong_content")...)
	}
	// sticky end of stream
	for i, l := range []int{1, 0, 7, 4096, 1} {
		n, err := r.Read(buf[:l])
		if l > 0 && (n != 0 || err != io.EOF) {
			return ev.Fail(fmt.Sprintf("%s reader: read #%d (len %d) after end of stream returned (%d, %v)", c.Fmt, i, l, n, err), append(sig, "stage", "after_eof", "result", "not_sticky")...)
		}
		if l == 0 && (n != 0 || (err != nil && err != io.EOF)) {
			return ev.Fail(fmt.Sprintf("%s reader: zero-length read after end of stream returned (%d, %v)", c.Fmt, n, err), append(sig, "stage", "after_eof", "result", "zero_read")...)
		}
	}
	distinct := map[int]bool{}
	for _, l := range c.Reads {
		distinct[l] = true
	}
	rec.Class("fmt="+c.Fmt, "frag="+c.Frag.Kind, fmt.Sprintf("eof_with_data=%v", c.Frag.EOFWith))
	if zeroReads > 0 {
		rec.Class("has_zero_length_read")
	}
	if distinct[1] {
		rec.Class("has_1_byte_read")
	}
	if len(c.Srcs) > 1 {
		rec.Class("multi_stream")
	}
	if len(a.content) > 65536 {
		rec.Class("content>64KiB")
	}
	if (len(distinct) >= 2 || c.Frag.Kind != "whole") && len(a.content) > 0 {
		rec.NonTrivial(ev.Hash64(a.data, fmt.Sprint(c.Reads), fmt.Sprintf("%+v", c.Frag)))
	}
	rec.Sample(c.Fmt+c.Frag.Kind, map[string]any{"fmt": c.Fmt, "origins": origins(c.Srcs), "file_len": len(a.data), "content_len": len(a.content), "reads": c.Reads, "frag": c.Frag, "source_calls": src.Calls})
	return nil
}

func TestC13(t *testing.T) {
	rec := ev.New("C13", "exploration")
	rec.Rule = "rapid draws a valid file (xz incl. multi-block and 2-3 concatenated streams, LZMA2 with flushes / raw chunks, classic LZMA in all termination modes; library, reference generator, liblzma, corpus), a cycled schedule of Read buffer lengths from {0,1,2,3,7,272..274,4095..4097,65536,100000} and a source fragmentation (whole, one byte, drawn piece lengths; io.EOF with or after the last bytes); oracle: concatenated results == content, io.EOF only after everything was delivered (also for zero-length reads), no other error, n <= len(p), after EOF every non-empty read returns (0, io.EOF); non-trivial = non-empty content and (>= 2 distinct lengths or a fragmenting source); distinct = hash(file, schedule, fragmentation)"
	rec.Assumptions = []string{"sources never return (0, nil) for a non-empty buffer"}
	drive(t, rec, drawC13, checkC13)
}
