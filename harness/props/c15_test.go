package props

import (
	"bytes"
	"fmt"
	"os"
	"os/exec"
	"path/filepath"
	"sort"
	"strings"
	"syscall"
	"testing"

	"pgregory.net/rapid"

	"verif/ev"
	"verif/gen"
	"verif/ref"
)

// fileC15 is a member of the scenario directory.
type fileC15 struct {
	Name string     `json:"name"`
	Kind string     `json:"kind"` // plain gxz_xz gxz_lzma xzutils_xz xzutils_lzma corrupt_xz trunc_xz trunc_lzma text dir
	Data gen.Recipe `json:"data,omitempty"`
	Mode uint32     `json:"mode"`
	Opt  string     `json:"opt,omitempty"` // xz-utils option for xzutils kinds
	// Streams > 1 (xz kinds): the member is what `xz -c part1 part2 > f` or
	// `gxz -c part1 part2 > f` produces: several concatenated streams, Pad*4
	// zero bytes of stream padding between them
	Streams int `json:"streams,omitempty"`
	Pad     int `json:"pad,omitempty"`
	// Link (kind symlink): the member is a symbolic link to this other member
	Link string `json:"link,omitempty"`
}

// flagC15 is one option in structured form.
type flagC15 struct {
	F     string `json:"f"`     // d z k c f q v 0..9 F
	Val   string `json:"val"`   // for F
	Style string `json:"style"` // short long bundle eq sep
}

// invC15 is one invocation: options and file operands with their positions.
type invC15 struct {
	Flags    []flagC15 `json:"flags"`
	Files    []string  `json:"files"`
	DashDash bool      `json:"dashdash"`
	// FlagPos[i] = number of file operands before flag i (only without --)
	FlagPos []int `json:"flagpos"`
	// Out is what standard output is connected to: "" a pipe, "file" a
	// regular file, "devnull" the character device /dev/null (not a terminal)
	Out string `json:"out,omitempty"`
	// Stdin names the member of the initial directory whose bytes are fed to
	// standard input ("" = empty input); read by the operand "-"
	Stdin string `json:"stdin,omitempty"`
}

// caseC15 is a directory and a history of one or two invocations on it.
type caseC15 struct {
	Files []fileC15 `json:"files"`
	Invs  []invC15  `json:"invs"`
}

var longNames = map[string]string{"d": "decompress", "z": "compress", "k": "keep", "c": "stdout", "f": "force", "q": "quiet", "v": "verbose"}

// argv renders the invocation.
func (inv invC15) argv() []string {
	var toks [][]string // one group of argv words per flag
	for i := 0; i < len(inv.Flags); i++ {
		fl := inv.Flags[i]
		switch {
		case fl.F == "F":
			switch fl.Style {
			case "eq":
				toks = append(toks, []string{"--format=" + fl.Val})
			case "sep":
				toks = append(toks, []string{"--format", fl.Val})
			default:
				toks = append(toks, []string{"-F", fl.Val})
			}
		case fl.Style == "long" && longNames[fl.F] != "":
			toks = append(toks, []string{"--" + longNames[fl.F]})
		default:
			toks = append(toks, []string{"-" + fl.F})
		}
	}
	// merge adjacent short no-argument flags marked "bundle"
	var words [][]string
	var pos []int
	for i, tk := range toks {
		p := 0
		if i < len(inv.FlagPos) {
			p = inv.FlagPos[i]
		}
		if inv.Flags[i].Style == "bundle" && len(words) > 0 && len(tk) == 1 && len(tk[0]) == 2 && tk[0][0] == '-' {
			last := words[len(words)-1]
			if len(last) == 1 && len(last[0]) >= 2 && last[0][0] == '-' && last[0][1] != '-' && last[0] != "-F" && pos[len(pos)-1] == p {
				words[len(words)-1] = []string{last[0] + tk[0][1:]}
				continue
			}
		}
		words = append(words, tk)
		pos = append(pos, p)
	}
	var out []string
	if inv.DashDash {
		for _, w := range words {
			out = append(out, w...)
		}
		out = append(out, "--")
		return append(out, inv.Files...)
	}
	for fi := 0; fi <= len(inv.Files); fi++ {
		for i, w := range words {
			if pos[i] == fi || (fi == len(inv.Files) && pos[i] > fi) {
				out = append(out, w...)
			}
		}
		if fi < len(inv.Files) {
			out = append(out, inv.Files[fi])
		}
	}
	return out
}

// optsC15 is what the options mean.
type optsC15 struct {
	decompress, keep, stdout, force bool
	format                          string // auto xz lzma
	preset                          int
}

func (inv invC15) opts() optsC15 {
	o := optsC15{format: "auto", preset: 6}
	z := false
	// options take effect in command-line order (the last -F / preset wins)
	order := make([]int, len(inv.Flags))
	for i := range order {
		order[i] = i
	}
	if !inv.DashDash {
		pos := func(i int) int {
			p := 0
			if i < len(inv.FlagPos) {
				p = inv.FlagPos[i]
			}
			if p > len(inv.Files) {
				p = len(inv.Files)
			}
			return p
		}
		sort.SliceStable(order, func(a, b int) bool { return pos(order[a]) < pos(order[b]) })
	}
	for _, idx := range order {
		fl := inv.Flags[idx]
		switch fl.F {
		case "d":
			o.decompress = true
		case "z":
			z = true
		case "k":
			o.keep = true
		case "c":
			o.stdout = true
		case "f":
			o.force = true
		case "F":
			o.format = fl.Val
			if o.format == "alone" {
				o.format = "lzma"
			}
		case "q", "v":
		default:
			o.preset = int(fl.F[0] - '0')
		}
	}
	if z {
		o.decompress = false // -z, --compress: force compression
	}
	return o
}

// node is a file of the modelled directory. A valid compressed file knows the
// node it decompresses to (inner); raw holds the exact bytes when the model
// knows them (directory members made at setup, files restored from them).
type node struct {
	dir    bool
	mode   uint32
	comp   string // "" not compressed; "xz" / "lzma" valid compressed; "bad" undecodable
	badFmt string // for bad: format its header announces ("" = none)
	raw    []byte // exact bytes, nil for files written by gxz' compressor in this history
	link   string // symbolic link to this name in the same directory
	inner  *node  // what a valid compressed file decompresses to
}

// matches tells whether the bytes b are what the model expects for n.
func (n *node) matches(b []byte) (bool, string) {
	if n.raw != nil {
		if bytes.Equal(b, n.raw) {
			return true, ""
		}
		return false, fmt.Sprintf("holds %d bytes, expected %d (first difference at %d)", len(b), len(n.raw), firstDiff(b, n.raw))
	}
	if n.comp == "xz" || n.comp == "lzma" {
		dec, err := decodeStreams(n.comp, b)
		if err != nil {
			return false, fmt.Sprintf("is not a valid %s file for the reference decoder: %v", n.comp, err)
		}
		return n.inner.matches(dec)
	}
	return false, "model has no expectation"
}

var gxzNames = []string{"a", "b.txt", "with space", "data.bin", "x.tar", "notes.xz.txt", "archive.txz", "old.tlz", "ff.xz", "g.lzma", "UPPER.XZ", "dotted.name.v2"}
var dashNames = []string{"-dash", "--double", "-k", "1", "true"}

func drawC15(t *rapid.T) caseC15 {
	var c caseC15
	names := append([]string{}, gxzNames...)
	nf := rapid.IntRange(1, 5).Draw(t, "nfiles")
	used := map[string]bool{}
	for i := 0; i < nf; i++ {
		var f fileC15
		f.Kind = rapid.SampledFrom([]string{"plain", "plain", "plain", "plain", "plain", "gxz_xz", "gxz_xz", "gxz_lzma", "gxz_lzma", "xzutils_xz", "xzutils_xz", "xzutils_lzma", "xzutils_lzma", "corrupt_xz", "trunc_xz", "trunc_lzma", "text", "dir"}).Draw(t, "fkind")
		base := rapid.SampledFrom(names).Draw(t, "fname")
		if rapid.IntRange(0, 9).Draw(t, "dashname") == 0 {
			base = rapid.SampledFrom(dashNames).Draw(t, "dname")
		}
		// a name that is nothing but a dash plus a suffix: its target is the
		// file "-" (as an operand "-" means standard input, so a member of
		// that very name is never made at setup)
		bare := rapid.IntRange(0, 29).Draw(t, "baredash") == 0
		switch f.Kind {
		case "gxz_xz", "xzutils_xz", "corrupt_xz", "trunc_xz", "text":
			base = strings.TrimSuffix(strings.TrimSuffix(base, ".xz"), ".lzma") + rapid.SampledFrom([]string{".xz", ".xz", ".xz", ".txz", "", ".dat"}).Draw(t, "sfx")
			if bare {
				base = "-" + rapid.SampledFrom([]string{".xz", ".xz", ".txz"}).Draw(t, "baresfx")
			}
		case "gxz_lzma", "xzutils_lzma", "trunc_lzma":
			base = strings.TrimSuffix(strings.TrimSuffix(base, ".xz"), ".lzma") + rapid.SampledFrom([]string{".lzma", ".lzma", ".lzma", ".tlz", "", ".dat"}).Draw(t, "sfx")
			if bare {
				base = "-" + rapid.SampledFrom([]string{".lzma", ".lzma", ".tlz"}).Draw(t, "baresfx")
			}
		}
		if used[base] {
			continue
		}
		used[base] = true
		f.Name = base
		classes := []string{"zero", "tiny", "small", "small", "medium"}
		if rapid.IntRange(0, 15).Draw(t, "bigfile") == 0 {
			classes = []string{"k128"}
		}
		f.Data = gen.DrawRecipe(t, 3, 250000, classes...)
		if rapid.IntRange(0, 15).Draw(t, "longdist") == 0 {
			// a repeat farther back than the dictionary of the low presets
			// (-0: 256 KiB): a member written with a large dictionary must be
			// decoded whatever preset is given to -d
			n := rapid.IntRange(270000, 330000).Draw(t, "ldlen")
			f.Data = gen.Recipe{{Kind: "random", Len: n, Seed: rapid.Uint64().Draw(t, "ldseed")}, {Kind: "copyback", Dist: n, Len: rapid.IntRange(1000, 8000).Draw(t, "ldcopy")}}
		}
		f.Mode = rapid.SampledFrom([]uint32{0644, 0600, 0640, 0755, 0444, 0666, 0400}).Draw(t, "mode")
		if (f.Kind == "xzutils_xz" || f.Kind == "gxz_xz") && rapid.IntRange(0, 3).Draw(t, "multistream") == 0 {
			f.Streams = rapid.IntRange(2, 3).Draw(t, "nstreams")
			f.Pad = rapid.SampledFrom([]int{0, 0, 1, 3}).Draw(t, "streampad")
		}
		if f.Kind == "xzutils_xz" {
			f.Opt = rapid.SampledFrom([]string{"-0", "-6", "-9e", "--check=crc32", "--check=sha256", "--check=none", "--block-size=4096", "--lzma2=lc=0,lp=2,pb=1,dict=4KiB", "--lzma2=dict=96KiB", "--lzma2=dict=1536KiB", "-T2 --block-size=32768"}).Draw(t, "xzopt")
		}
		if f.Kind == "xzutils_lzma" {
			f.Opt = rapid.SampledFrom([]string{"-0", "-6", "-9", "--lzma1=lc=4,lp=0,pb=0,dict=64KiB", "--lzma1=preset=1,dict=96KiB", "--lzma1=preset=6,dict=6MiB", "--lzma1=preset=0,dict=12KiB"}).Draw(t, "lzopt")
		}
		c.Files = append(c.Files, f)
	}
	// a symbolic link to a regular member: refused without -f, followed with
	// -f (the link is what gets removed, the output takes the target's mode)
	haveLink := false
	if rapid.IntRange(0, 5).Draw(t, "symlink") == 0 {
		var regs []string
		for _, f := range c.Files {
			if f.Kind != "dir" {
				regs = append(regs, f.Name)
			}
		}
		if len(regs) > 0 {
			to := rapid.SampledFrom(regs).Draw(t, "linkto")
			name := "ln-" + strings.TrimLeft(to, "-")
			if !used[name] {
				used[name] = true
				c.Files = append(c.Files, fileC15{Name: name, Kind: "symlink", Link: to, Mode: 0777})
				haveLink = true
			}
		}
	}
	// the plain round trip of the statement, for every preset and both formats
	if rapid.IntRange(0, 3).Draw(t, "roundtrip") == 0 {
		var plain []string
		for _, f := range c.Files {
			if f.Kind == "plain" && !strings.HasPrefix(f.Name, "-") && f.Name != "1" && f.Name != "true" &&
				!strings.HasSuffix(f.Name, ".xz") && !strings.HasSuffix(f.Name, ".lzma") && !strings.HasSuffix(f.Name, ".txz") && !strings.HasSuffix(f.Name, ".tlz") {
				plain = append(plain, f.Name)
			}
		}
		if len(plain) > 0 {
			name := rapid.SampledFrom(plain).Draw(t, "rtfile")
			format := rapid.SampledFrom([]string{"xz", "lzma"}).Draw(t, "rtfmt")
			preset := rapid.IntRange(0, 9).Draw(t, "rtpreset")
			first := invC15{Flags: []flagC15{{F: fmt.Sprint(preset), Style: "short"}, {F: "F", Val: format, Style: "short"}}, Files: []string{name}, FlagPos: []int{0, 0}}
			second := invC15{Flags: []flagC15{{F: "d", Style: "short"}}, Files: []string{name + "." + format}, FlagPos: []int{0}}
			if rapid.Bool().Draw(t, "rtkeep") {
				first.Flags = append(first.Flags, flagC15{F: "k", Style: "long"})
				first.FlagPos = append(first.FlagPos, 1)
				second.Flags = append(second.Flags, flagC15{F: "f", Style: "short"})
				second.FlagPos = append(second.FlagPos, 1)
			}
			c.Invs = []invC15{first, second}
			return c
		}
	}
	// interoperability with a large-dictionary writer: a member written by
	// xz-utils whose matches reach farther back than the dictionary of the
	// preset given to `gxz -d` (the preset must not matter for decoding)
	if rapid.IntRange(0, 11).Draw(t, "foreignbigdict") == 0 {
		n := rapid.IntRange(270000, 330000).Draw(t, "fbdlen")
		f := fileC15{Name: "far.xz", Kind: "xzutils_xz", Mode: 0644, Opt: rapid.SampledFrom([]string{"-6", "-9e", "--lzma2=dict=1MiB"}).Draw(t, "fbdopt"),
			Data: gen.Recipe{{Kind: "random", Len: n, Seed: rapid.Uint64().Draw(t, "fbdseed")}, {Kind: "copyback", Dist: n, Len: rapid.IntRange(1000, 8000).Draw(t, "fbdcopy")}}}
		if rapid.Bool().Draw(t, "fbdlzma") {
			f.Name, f.Kind, f.Opt = "far.lzma", "xzutils_lzma", rapid.SampledFrom([]string{"-6", "-9"}).Draw(t, "fbdlzopt")
		}
		c.Files = []fileC15{f}
		inv := invC15{Flags: []flagC15{{F: "d", Style: "short"}, {F: fmt.Sprint(rapid.IntRange(0, 2).Draw(t, "fbdpreset")), Style: "short"}}, Files: []string{f.Name}, FlagPos: []int{0, 0}}
		c.Invs = []invC15{inv}
		return c
	}
	ninv := rapid.IntRange(1, 2).Draw(t, "ninv")
	cur := map[string]bool{}
	for _, f := range c.Files {
		cur[f.Name] = true
	}
	for k := 0; k < ninv; k++ {
		var inv invC15
		nfl := rapid.IntRange(0, 5).Draw(t, "nflags")
		for i := 0; i < nfl; i++ {
			fl := flagC15{F: rapid.SampledFrom([]string{"d", "d", "d", "z", "k", "k", "c", "f", "f", "q", "v", "F", "F", "0", "1", "2", "3", "4", "5", "6", "7", "8", "9"}).Draw(t, "flag")}
			if fl.F == "F" {
				fl.Val = rapid.SampledFrom([]string{"xz", "lzma", "alone", "auto"}).Draw(t, "fmtval")
				fl.Style = rapid.SampledFrom([]string{"short", "eq", "sep"}).Draw(t, "fstyle")
			} else {
				fl.Style = rapid.SampledFrom([]string{"short", "short", "long", "bundle"}).Draw(t, "style")
			}
			inv.Flags = append(inv.Flags, fl)
		}
		if haveLink && rapid.Bool().Draw(t, "linkforce") {
			inv.Flags = append(inv.Flags, flagC15{F: "f", Style: "short"})
		}
		// operands: existing names, names the previous step may have created, a missing one
		var pool []string
		for n := range cur {
			pool = append(pool, n)
		}
		sort.Strings(pool)
		// operands that suit the mode of the invocation are preferred, so
		// that successful and failing members are both common
		o := inv.opts()
		var fit []string
		for _, n := range pool {
			comp := strings.HasSuffix(n, ".xz") || strings.HasSuffix(n, ".lzma") || strings.HasSuffix(n, ".txz") || strings.HasSuffix(n, ".tlz")
			if comp == o.decompress {
				fit = append(fit, n)
			}
		}
		if rapid.IntRange(0, 7).Draw(t, "missing") == 0 {
			pool = append(pool, "missing-file")
		}
		nop := rapid.IntRange(1, 4).Draw(t, "nops")
		needDD := false
		for i := 0; i < nop; i++ {
			from := pool
			if len(fit) > 0 && rapid.IntRange(0, 3).Draw(t, "fit") > 0 {
				from = fit
			}
			n := rapid.SampledFrom(from).Draw(t, "operand")
			inv.Files = append(inv.Files, n)
			if strings.HasPrefix(n, "-") || n == "1" || n == "true" {
				needDD = true
			}
		}
		if rapid.IntRange(0, 7).Draw(t, "stdinop") == 0 {
			// the operand "-": standard input, processed to standard output
			// among the other operands
			var members []string
			for _, f := range c.Files {
				comp := strings.HasPrefix(f.Kind, "gxz_") || strings.HasPrefix(f.Kind, "xzutils_") || strings.HasPrefix(f.Kind, "trunc_") || f.Kind == "corrupt_xz"
				if f.Kind != "dir" && (comp == o.decompress || rapid.IntRange(0, 3).Draw(t, "stdinany") == 0) {
					members = append(members, f.Name)
				}
			}
			if len(members) > 0 && rapid.IntRange(0, 5).Draw(t, "stdinempty") > 0 {
				inv.Stdin = rapid.SampledFrom(members).Draw(t, "stdinfrom")
			}
			at := rapid.IntRange(0, len(inv.Files)).Draw(t, "stdinat")
			inv.Files = append(inv.Files[:at], append([]string{"-"}, inv.Files[at:]...)...)
		}
		if rapid.IntRange(0, 19).Draw(t, "nooperand") == 0 {
			// no operand at all: standard input to standard output
			inv.Files, needDD = nil, false
			var members []string
			for _, f := range c.Files {
				if f.Kind != "dir" {
					members = append(members, f.Name)
				}
			}
			if len(members) > 0 {
				inv.Stdin = rapid.SampledFrom(members).Draw(t, "stdinfrom0")
			}
		}
		inv.DashDash = needDD || rapid.IntRange(0, 4).Draw(t, "dd") == 0
		for range inv.Flags {
			inv.FlagPos = append(inv.FlagPos, rapid.IntRange(0, len(inv.Files)).Draw(t, "flagpos"))
		}
		inv.Out = rapid.SampledFrom([]string{"", "", "", "file", "devnull"}).Draw(t, "stdoutkind")
		c.Invs = append(c.Invs, inv)
		// names the next invocation may refer to
		for _, n := range inv.Files {
			if n == "-" {
				continue
			}
			for _, s := range []string{".xz", ".lzma"} {
				cur[n+s] = true
				if strings.HasSuffix(n, s) && strings.TrimSuffix(n, s) != "-" {
					// (a file named "-" cannot be addressed: the operand means
					// standard input)
					cur[strings.TrimSuffix(n, s)] = true
				}
			}
		}
	}
	return c
}

func runTool(dir string, name string, args []string, stdin []byte) (stdout, stderr []byte, code int, err error) {
	stdout, stderr, code, _, err = runToolOut(dir, name, args, stdin, "")
	return
}

// runToolOut runs the tool with standard output connected to a pipe (""), a
// regular file outside dir ("file") or /dev/null ("devnull"); known tells
// whether stdout holds what was written.
func runToolOut(dir string, name string, args []string, stdin []byte, out string) (stdout, stderr []byte, code int, known bool, err error) {
	cmd := exec.Command(name, args...)
	cmd.Dir = dir
	var so, se bytes.Buffer
	cmd.Stdout, cmd.Stderr = &so, &se
	known = true
	var outFile *os.File
	switch out {
	case "file":
		outFile, err = os.CreateTemp(filepath.Dir(dir), "stdout-")
		if err != nil {
			return nil, nil, 0, false, err
		}
		defer os.Remove(outFile.Name())
		defer outFile.Close()
		cmd.Stdout = outFile
	case "devnull":
		outFile, err = os.OpenFile(os.DevNull, os.O_WRONLY, 0)
		if err != nil {
			return nil, nil, 0, false, err
		}
		defer outFile.Close()
		cmd.Stdout = outFile
		known = false
	}
	cmd.Stdin = bytes.NewReader(stdin)
	err = cmd.Run()
	code = 0
	if ee, ok := err.(*exec.ExitError); ok {
		code = ee.ExitCode()
		err = nil
	}
	if out == "file" && err == nil {
		b, rerr := os.ReadFile(outFile.Name())
		if rerr != nil {
			return nil, nil, 0, false, rerr
		}
		return b, se.Bytes(), code, true, nil
	}
	return so.Bytes(), se.Bytes(), code, known, err
}

// decodeStreams decodes a file in the given format (several concatenated
// streams allowed) with the reference decoder.
func decodeStreams(format string, b []byte) ([]byte, error) {
	if format == "xz" {
		r, err := ref.DecodeXZ(b)
		if err != nil {
			return nil, err
		}
		return r.Out, nil
	}
	var out []byte
	for len(b) > 0 {
		r, err := ref.DecodeLZMA(b)
		if err != nil && (r == nil || r.Consumed == 0 || err.Error() != "ref: trailing bytes after LZMA stream") {
			return nil, err
		}
		out = append(out, r.Out...)
		b = b[r.Consumed:]
	}
	return out, nil
}

func sniff(b []byte) string {
	if len(b) >= 12 && bytes.Equal(b[:6], []byte{0xFD, '7', 'z', 'X', 'Z', 0}) {
		if _, err := ref.DecodeXZ(b); err == nil {
			return "xz"
		}
	}
	return ""
}

// buildDir creates the directory and the model of it. It returns false if a
// needed tool is missing.
// compressParts compresses data as f.Streams concatenated streams.
func compressParts(f fileC15, data []byte, one func(part []byte) ([]byte, bool)) ([]byte, bool) {
	k := f.Streams
	if k < 1 {
		k = 1
	}
	var out []byte
	for i := 0; i < k; i++ {
		part := data[len(data)*i/k : len(data)*(i+1)/k]
		c, ok := one(part)
		if !ok {
			return nil, false
		}
		if i > 0 {
			out = append(out, make([]byte, 4*f.Pad)...)
		}
		out = append(out, c...)
	}
	return out, true
}

func buildDir(dir string, files []fileC15, gxz string, rec *ev.Rec) (map[string]*node, bool) {
	model := map[string]*node{}
	for _, f := range files {
		p := filepath.Join(dir, f.Name)
		if f.Kind == "dir" {
			os.Mkdir(p, 0o755)
			model[f.Name] = &node{dir: true}
			continue
		}
		if f.Kind == "symlink" {
			if err := os.Symlink(f.Link, p); err != nil {
				rec.Incomplete("cannot create symbolic link: " + err.Error())
				return nil, false
			}
			model[f.Name] = &node{link: f.Link}
			continue
		}
		data := f.Data.Expand()
		n := &node{mode: f.Mode}
		var content []byte
		switch f.Kind {
		case "plain":
			content = data
		case "text":
			content = append([]byte("this is not compressed data: "), data...)
			n.comp = "bad"
		case "gxz_xz", "gxz_lzma", "corrupt_xz", "trunc_xz", "trunc_lzma":
			format := "xz"
			if strings.HasSuffix(f.Kind, "lzma") {
				format = "lzma"
			}
			out, ok := compressParts(f, data, func(part []byte) ([]byte, bool) {
				o, _, code, err := runTool(dir, gxz, []string{"-c", "-F", format}, part)
				if err != nil || code != 0 {
					rec.Incomplete(fmt.Sprintf("cannot prepare %s member with gxz: %v code %d", f.Kind, err, code))
					return nil, false
				}
				return o, true
			})
			if !ok {
				return nil, false
			}
			if f.Streams > 1 {
				rec.Class("member_multi_stream_gxz")
			}
			content = out
			n.comp, n.inner = format, &node{raw: data, mode: f.Mode}
			switch f.Kind {
			case "corrupt_xz":
				content = append([]byte{}, out...)
				content[len(content)/2] ^= 0x10
				n.comp, n.badFmt, n.inner = "bad", "xz", nil
			case "trunc_xz", "trunc_lzma":
				cut := len(out) - 1 - len(out)/3
				if cut < 13 {
					cut = len(out) - 1
				}
				content = out[:cut]
				n.comp, n.badFmt, n.inner = "bad", format, nil
				if (format == "lzma" && cut < 13) || (format == "xz" && cut < 12) {
					n.badFmt = ""
				}
			}
		case "xzutils_xz", "xzutils_lzma":
			format := "xz"
			if f.Kind == "xzutils_lzma" {
				format = "lzma"
			}
			out, ok := compressParts(f, data, func(part []byte) ([]byte, bool) {
				o, _, code, err := runTool(dir, "xz", append([]string{"-c", "-T1", "--format=" + format}, strings.Fields(f.Opt)...), part)
				if err != nil || code != 0 {
					rec.Class("xz-utils_missing")
					return nil, false
				}
				return o, true
			})
			if !ok {
				return nil, false
			}
			if f.Streams > 1 {
				rec.Class("member_multi_stream_xzutils")
			}
			content = out
			n.comp, n.inner = format, &node{raw: data, mode: f.Mode}
		}
		n.raw = content
		if err := os.WriteFile(p, content, os.FileMode(f.Mode)); err != nil {
			rec.Incomplete("cannot write member: " + err.Error())
			return nil, false
		}
		os.Chmod(p, os.FileMode(f.Mode))
		model[f.Name] = n
	}
	return model, true
}

// expectC15 is what the model predicts for one invocation.
type expectC15 struct {
	exit        int
	stdout      []*node // nodes whose bytes standard output must hold, in order
	stdoutFmt   string  // "" plain bytes; "xz"/"lzma": stdout is compressed and decodes to the nodes' bytes
	stdoutExact bool    // false when a failing member may have written partial output
	usesStdout  bool    // -c, or the operand "-"
}

func targetFor(name string, decompress bool, format string) (string, bool) {
	ext, tar := "."+format, ".txz"
	if format == "lzma" {
		tar = ".tlz"
	}
	if !decompress {
		if strings.HasSuffix(name, ext) || strings.HasSuffix(name, tar) {
			return "", false
		}
		return name + ext, true
	}
	if strings.HasSuffix(name, ext) && len(name) > len(ext) {
		return strings.TrimSuffix(name, ext), true
	}
	if strings.HasSuffix(name, tar) && len(name) > len(tar) {
		return strings.TrimSuffix(name, tar) + ".tar", true
	}
	return "", false
}

func stepModel(model map[string]*node, inv invC15, stdin *node) expectC15 {
	all := inv.opts()
	e := expectC15{stdoutExact: true, usesStdout: all.stdout}
	fail := func() { e.exit = 1 }
	operands := inv.Files
	if len(operands) == 0 {
		operands = []string{"-"} // "With no file, or when FILE is -, read standard input"
	}
	for _, name := range operands {
		o := all
		n := model[name]
		if name == "-" {
			// standard input: no name to derive a target from, the result goes
			// to standard output; nothing to remove
			n, o.stdout, e.usesStdout = stdin, true, true
		}
		if n == nil || n.dir {
			fail()
			continue
		}
		if n.link != "" {
			// not a regular file: refused unless -f, which follows the link
			t := model[n.link]
			if !o.force || t == nil || t.dir || t.link != "" {
				fail()
				continue
			}
			n = t
		}
		if !o.decompress {
			format := o.format
			if format == "auto" {
				format = "xz"
			}
			if o.stdout {
				e.stdoutFmt = format
				e.stdout = append(e.stdout, n)
				continue
			}
			target, ok := targetFor(name, false, format)
			if !ok {
				fail()
				continue
			}
			if t := model[target]; t != nil && (!o.force || t.dir) {
				fail()
				continue
			}
			src := *n
			model[target] = &node{mode: n.mode, comp: format, inner: &src}
			if !o.keep {
				delete(model, name)
			}
			continue
		}
		// decompress: which format does the content announce?
		hdr := n.comp
		if n.comp == "bad" {
			hdr = n.badFmt
		}
		format := o.format
		if format == "auto" {
			format = hdr
		}
		if hdr == "" || hdr != format {
			fail() // no (matching) header
			continue
		}
		if n.comp == "bad" {
			fail()
			if o.stdout {
				e.stdoutExact = false
			}
			continue
		}
		if o.stdout {
			e.stdout = append(e.stdout, n.inner)
			continue
		}
		target, ok := targetFor(name, true, format)
		if !ok {
			fail() // no known suffix: no target name different from the input
			continue
		}
		if t := model[target]; t != nil && (!o.force || t.dir) {
			fail()
			continue
		}
		out := *n.inner
		out.mode = n.mode
		model[target] = &out
		if !o.keep {
			delete(model, name)
		}
	}
	return e
}

func checkC15(c caseC15, rec *ev.Rec) *ev.Failure {
	gxz := os.Getenv("VERIF_GXZ")
	if gxz == "" {
		rec.Incomplete("VERIF_GXZ not set (the driver builds gxz)")
		return nil
	}
	syscall.Umask(0)
	work := os.Getenv("VERIF_WORKDIR")
	dir, err := os.MkdirTemp(work, "c15-")
	if err != nil {
		rec.Incomplete("mkdtemp: " + err.Error())
		return nil
	}
	defer func() {
		filepath.Walk(dir, func(p string, info os.FileInfo, err error) error {
			if err == nil {
				os.Chmod(p, 0o755)
			}
			return nil
		})
		os.RemoveAll(dir)
	}()
	model, ok := buildDir(dir, c.Files, gxz, rec)
	if !ok {
		return nil
	}
	origModes := map[string]uint32{}
	orig := map[string]*node{}
	for n, nd := range model {
		origModes[n] = nd.mode
		orig[n] = nd
	}
	for si, inv := range c.Invs {
		args := inv.argv()
		o := inv.opts()
		before := map[string]*node{}
		for k, v := range model {
			before[k] = v
		}
		stdinNode := &node{raw: []byte{}}
		if nd := orig[inv.Stdin]; nd != nil && !nd.dir && nd.raw != nil {
			stdinNode = nd
		}
		exp := stepModel(model, inv, stdinNode)
		stdout, stderr, code, stdoutKnown, err := runToolOut(dir, gxz, args, stdinNode.raw, inv.Out)
		if err != nil {
			rec.Incomplete("cannot run gxz: " + err.Error())
			return nil
		}
		if inv.Out != "" {
			rec.Class("stdout=" + inv.Out)
		}
		desc := fmt.Sprintf("step %d: gxz %q (stdout: %s) in a directory with %s", si, args, map[string]string{"": "pipe", "file": "regular file", "devnull": "/dev/null"}[inv.Out], describeDir(c.Files))
		if inv.Stdin != "" {
			desc += fmt.Sprintf(", standard input = the bytes of %q", inv.Stdin)
		}
		sig := []string{"step", fmt.Sprint(si)}
		if bytes.Contains(stderr, []byte("panic:")) || bytes.Contains(stderr, []byte("goroutine ")) {
			return ev.Fail(desc+": gxz panicked: "+string(stderr[:min(len(stderr), 600)]), append(sig, "what", "panic")...)
		}
		if exp.exit >= 0 && (code != 0) != (exp.exit != 0) {
			return ev.Fail(fmt.Sprintf("%s: exit status %d, expected %s (stderr: %s)", desc, code, map[bool]string{true: "non-zero (some file cannot be processed)", false: "0"}[exp.exit != 0], firstLine(string(stderr))),
				append(sig, "what", "exit_status", "flags", flagSet(inv))...)
		}
		// stdout
		if !stdoutKnown {
			// written to /dev/null: exit status and directory are judged
		} else if !exp.usesStdout {
			if len(stdout) != 0 {
				return ev.Fail(desc+": wrote to standard output without -c", append(sig, "what", "stdout_unwanted")...)
			}
		} else if exp.stdoutExact {
			got := stdout
			if exp.stdoutFmt != "" && len(stdout) > 0 {
				dec, err := decodeStreams(exp.stdoutFmt, stdout)
				if err != nil {
					return ev.Fail(fmt.Sprintf("%s: standard output is not a valid %s file: %v", desc, exp.stdoutFmt, err), append(sig, "what", "stdout_invalid")...)
				}
				got = dec
			}
			var want []byte
			exact := true
			for _, nd := range exp.stdout {
				if nd.raw == nil {
					exact = false
					break
				}
				want = append(want, nd.raw...)
			}
			if exact && !bytes.Equal(got, want) {
				return ev.Fail(fmt.Sprintf("%s: standard output holds %d bytes of content, expected %d", desc, len(got), len(want)), append(sig, "what", "stdout_content", "flags", flagSet(inv))...)
			}
		}
		// directory tree
		entries, _ := os.ReadDir(dir)
		seen := map[string]bool{}
		for _, en := range entries {
			name := en.Name()
			seen[name] = true
			if strings.HasSuffix(name, ".compress") || strings.HasSuffix(name, ".decompress") {
				return ev.Fail(desc+": temporary file "+name+" left behind", append(sig, "what", "temp_left")...)
			}
			want := model[name]
			if want == nil {
				return ev.Fail(fmt.Sprintf("%s: unexpected file %q appeared (or an input that should have been removed is still there)", desc, name), append(sig, "what", "unexpected_file", "flags", flagSet(inv))...)
			}
			if want.dir {
				continue
			}
			if want.link != "" {
				if to, err := os.Readlink(filepath.Join(dir, name)); err != nil || to != want.link {
					return ev.Fail(fmt.Sprintf("%s: %q is no longer the symbolic link to %q it was (%v)", desc, name, want.link, err), append(sig, "what", "link_changed")...)
				}
				continue
			}
			b, err := os.ReadFile(filepath.Join(dir, name))
			if err != nil {
				rec.Incomplete("cannot read back " + name + ": " + err.Error())
				return nil
			}
			if ok, why := want.matches(b); !ok {
				what := "output_content"
				if before[name] == want {
					what = "input_modified"
				}
				return ev.Fail(fmt.Sprintf("%s: file %q %s", desc, name, why), append(sig, "what", what)...)
			}
			if want.raw == nil && (want.comp == "xz" || want.comp == "lzma") {
				// interoperability: xz-utils accepts what gxz wrote
				if _, _, xc, xerr := runTool(dir, "xz", []string{"-t", "--format=" + want.comp, "--", name}, nil); xerr == nil && xc != 0 {
					return ev.Fail(fmt.Sprintf("%s: xz-utils rejects %q written by gxz", desc, name), append(sig, "what", "xzutils_rejects")...)
				} else if xerr == nil {
					rec.Class("xz-utils_accepts_gxz_output")
				}
			}
			// permissions: never a bit the source lacked
			if fi, err := os.Stat(filepath.Join(dir, name)); err == nil && before[name] == nil && want.mode != 0 {
				if extra := uint32(fi.Mode().Perm()) &^ want.mode; extra != 0 {
					return ev.Fail(fmt.Sprintf("%s: output %q has mode %o, its source had %o", desc, name, fi.Mode().Perm(), want.mode), append(sig, "what", "mode_grants")...)
				}
			}
		}
		for name := range model {
			if !seen[name] {
				return ev.Fail(fmt.Sprintf("%s: file %q is missing (expected to exist after the run; exit status %d)", desc, name, code), append(sig, "what", "file_missing", "flags", flagSet(inv))...)
			}
		}
		rec.Class("flags="+flagSet(inv), fmt.Sprintf("exit=%d", min(code, 1)), fmt.Sprintf("files=%d", len(inv.Files)))
		if inv.DashDash {
			rec.Class("dashdash")
		}
		if len(inv.Files) == 0 {
			rec.Class("no_operand")
		}
		for _, n := range inv.Files {
			if n == "-" {
				rec.Class("stdin_operand", fmt.Sprintf("stdin_operand/c=%v/files=%d", o.stdout, len(inv.Files)))
			}
		}
		if !o.decompress {
			f := o.format
			if f == "auto" {
				f = "xz"
			}
			rec.Class(fmt.Sprintf("compress_preset=%d/%s", o.preset, f))
		}
		for _, fl := range inv.Flags {
			rec.Class("flag=" + fl.F + "/" + fl.Style)
			if fl.F >= "0" && fl.F <= "9" {
				rec.Class("preset")
			}
		}
	}
	nontrivial := false
	for _, inv := range c.Invs {
		if len(inv.Flags) >= 2 || len(inv.Files) >= 2 {
			nontrivial = true
		}
	}
	if nontrivial {
		rec.NonTrivial(caseHash(c))
	}
	if len(c.Invs) == 2 {
		rec.Class("two_step_history")
		if a, b := c.Invs[0].opts(), c.Invs[1].opts(); !a.decompress && b.decompress && len(c.Invs[0].Files) == 1 && len(c.Invs[1].Files) == 1 &&
			strings.HasPrefix(c.Invs[1].Files[0], c.Invs[0].Files[0]+".") {
			f := a.format
			if f == "auto" {
				f = "xz"
			}
			rec.Class(fmt.Sprintf("roundtrip_preset=%d/%s", a.preset, f))
		}
	}
	for _, f := range c.Files {
		rec.Class("member=" + f.Kind)
	}
	var argvs [][]string
	for _, inv := range c.Invs {
		argvs = append(argvs, inv.argv())
	}
	rec.Sample(fmt.Sprint(len(c.Invs), len(c.Files)), map[string]any{"dir": describeDir(c.Files), "invocations": argvs})
	return nil
}

func flagSet(inv invC15) string {
	m := map[string]bool{}
	for _, f := range inv.Flags {
		k := f.F
		if k >= "0" && k <= "9" {
			k = "N"
		}
		if k == "F" {
			k = "F" + f.Val
		}
		m[k] = true
	}
	var ks []string
	for k := range m {
		ks = append(ks, k)
	}
	sort.Strings(ks)
	return strings.Join(ks, ",")
}

func describeDir(files []fileC15) string {
	var s []string
	for _, f := range files {
		if f.Kind == "symlink" {
			s = append(s, fmt.Sprintf("%s(symlink to %s)", f.Name, f.Link))
			continue
		}
		s = append(s, fmt.Sprintf("%s(%s,%d bytes,%o)", f.Name, f.Kind, f.Data.Len(), f.Mode))
	}
	return strings.Join(s, " ")
}

func TestC15(t *testing.T) {
	rec := ev.New("C15", "exploration")
	rec.Rule = "enumerated first: one good operand followed by 255, 256, 257 and 512 missing ones (exit status must stay non-zero); then rapid draws a directory (1-5 members: plain files, files compressed by gxz and by xz-utils with varied options in both formats, bit-flipped / truncated / not-compressed files with a compressed suffix, a directory, a symbolic link to a member; names with spaces, known / unknown / tar suffixes, leading dashes; modes 0400..0755) and a history of 1-2 invocations of the gxz binary built from the tree (options from {-d,-z,-k,-c,-f,-q,-v,-F/--format xz|lzma|alone|auto,-0..-9} in short, long, bundled, '=' and separate-argument styles, placed before, between and after 1-4 operands incl. a missing one and the operand '-' (standard input fed with a member's bytes or nothing), optional '--'); an executable model of the documented semantics predicts per operand success or failure, the resulting tree (plaintext of every file), standard output and whether the exit status is non-zero; compressed outputs are decoded by the reference decoder and tested by xz-utils; output modes must not exceed the source's; no temporary file may remain; non-trivial = >= 2 options or >= 2 operands; distinct = hash of the case"
	rec.Assumptions = []string{"names that gflag would take for the optional argument of a boolean/counter option (1, true, leading dash) are only used after '--'", "files compressed twice are modelled loosely (safety only)", "umask 0"}
	// exit status with very many failing operands (a status is one byte: a
	// count of failures must not wrap to 0), before the random cases
	enumerate(t, rec, checkC15, func(try func(caseC15) bool) {
		for i, n := range []int{255, 256, 257, 512} {
			if i%rec.Shards != rec.Shard {
				continue
			}
			ops := []string{"a"}
			for k := 0; k < n; k++ {
				ops = append(ops, "missing-file")
			}
			c := caseC15{Files: []fileC15{{Name: "a", Kind: "plain", Data: gen.Recipe{{Kind: "text", K: 4, Len: 500, Seed: uint64(n)}}, Mode: 0644}},
				Invs: []invC15{{Flags: []flagC15{{F: "k", Style: "short"}}, Files: ops, FlagPos: []int{0}}}}
			rec.Class("many_failing_operands")
			if !try(c) {
				return
			}
		}
	})
	if t.Failed() {
		return
	}
	// the target name exists as a symbolic link that leads back to the
	// operand (fa.xz -> fa, ga -> ga.xz; one-letter names such as f would be taken
	// for the optional argument of a boolean option), with and without -f; and inputs whose
	// mode has no read or write bit at all (only root can open them)
	enumerate(t, rec, checkC15, func(try func(caseC15) bool) {
		txt := gen.Recipe{{Kind: "text", K: 4, Len: 3000, Seed: 31}}
		fl := func(fs ...string) (r []flagC15) {
			for _, f := range fs {
				r = append(r, flagC15{F: f, Style: "short"})
			}
			return
		}
		pos := func(n int) []int { return make([]int, n) }
		var cases []caseC15
		for _, flags := range [][]string{{"f"}, {"f", "k"}, {}} {
			cases = append(cases,
				caseC15{Files: []fileC15{{Name: "fa", Kind: "plain", Data: txt, Mode: 0640}, {Name: "fa.xz", Kind: "symlink", Link: "fa", Mode: 0777}},
					Invs: []invC15{{Flags: fl(flags...), Files: []string{"fa"}, FlagPos: pos(len(flags))}}},
				caseC15{Files: []fileC15{{Name: "ga.xz", Kind: "gxz_xz", Data: txt, Mode: 0600}, {Name: "ga", Kind: "symlink", Link: "ga.xz", Mode: 0777}},
					Invs: []invC15{{Flags: fl(append([]string{"d"}, flags...)...), Files: []string{"ga.xz"}, FlagPos: pos(len(flags) + 1)}}},
				caseC15{Files: []fileC15{{Name: "ha", Kind: "plain", Data: txt, Mode: 0644}, {Name: "ha.lzma", Kind: "symlink", Link: "ha", Mode: 0777}},
					Invs: []invC15{{Flags: append(fl(flags...), flagC15{F: "F", Val: "lzma", Style: "short"}), Files: []string{"ha"}, FlagPos: pos(len(flags) + 1)}}})
		}
		if os.Geteuid() == 0 {
			for _, mode := range []uint32{0, 0111, 0100, 0010} {
				cases = append(cases, caseC15{Files: []fileC15{{Name: "ma", Kind: "plain", Data: txt, Mode: mode}},
					Invs: []invC15{{Files: []string{"ma"}}, {Flags: fl("d"), Files: []string{"ma.xz"}, FlagPos: pos(1)}}})
			}
			rec.Class("modes_without_rw_bits(root)")
		}
		for i, c := range cases {
			if i%rec.Shards != rec.Shard {
				continue
			}
			rec.Class("enumerated_link_or_mode_case")
			if !try(c) {
				return
			}
		}
	})
	if t.Failed() {
		return
	}
	drive(t, rec, drawC15, checkC15)
}
