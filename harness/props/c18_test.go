package props

import (
	"bytes"
	"fmt"
	"io"
	"runtime"
	"sync"
	"testing"

	"github.com/ulikunitz/xz"
	"github.com/ulikunitz/xz/lzma"

	"verif/ev"
	"verif/ref"
)

// caseC18 is one unit of the C18 enumeration.
type caseC18 struct {
	Kind    string `json:"kind"` // codes | range | header | readcode
	Lo      uint64 `json:"lo,omitempty"`
	Hi      uint64 `json:"hi,omitempty"`
	DictCap int    `json:"dictcap,omitempty"`
	Code    int    `json:"code,omitempty"`
}

// table of the 41 representable sizes, written independently of the library
func c18Table() [41]int64 {
	var t [41]int64
	for c := 0; c < 40; c++ {
		mant := int64(2 + c%2)
		t[c] = mant << uint(c/2+11)
	}
	t[40] = 1<<32 - 1
	return t
}

func checkC18(c caseC18, rec *ev.Rec) *ev.Failure {
	tab := c18Table()
	switch c.Kind {
	case "codes":
		prev := int64(0)
		for b := 0; b < 256; b++ {
			n, err := lzma.DecodeDictCap(byte(b))
			if b <= 40 {
				if err != nil {
					return ev.Fail(fmt.Sprintf("DecodeDictCap(%d) fails: %v", b, err), "part", "decode", "code", fmt.Sprint(b), "result", "error")
				}
				if n != tab[b] {
					return ev.Fail(fmt.Sprintf("DecodeDictCap(%d) = %d, want %d", b, n, tab[b]), "part", "decode", "code", fmt.Sprint(b), "result", "wrong")
				}
				if n <= prev {
					return ev.Fail(fmt.Sprintf("DecodeDictCap not strictly increasing at %d", b), "part", "decode", "result", "order")
				}
				prev = n
			} else if err == nil {
				return ev.Fail(fmt.Sprintf("DecodeDictCap(%d) accepted, = %d", b, n), "part", "decode", "code", fmt.Sprint(b), "result", "accepted")
			}
		}
		rec.Bulk(256)
		rec.ClassN("code_bytes", 256)
		return nil
	case "range":
		// expected code: least c with tab[c] >= n; advance a pointer
		want := 0
		for tab[want] < int64(c.Lo) {
			want++
		}
		for n := c.Lo; ; n++ {
			for tab[want] < int64(n) {
				want++
			}
			got := lzma.EncodeDictCap(int64(n))
			if int(got) != want {
				return ev.Fail(fmt.Sprintf("EncodeDictCap(%d) = %d (size %d), want %d (size %d)", n, got, tab[min(int(got), 40)], want, tab[want]),
					"part", "encode", "result", relC18(int(got), want))
			}
			if n == c.Hi {
				break
			}
		}
		rec.Bulk(int64(c.Hi - c.Lo + 1))
		return nil
	case "header":
		// the dictionary byte in an emitted block header
		var buf bytes.Buffer
		w, err := xz.WriterConfig{DictCap: c.DictCap}.NewWriter(&buf)
		if err != nil {
			return ev.Fail(fmt.Sprintf("NewWriter(DictCap %d): %v", c.DictCap, err), "part", "header", "result", "newwriter")
		}
		w.Write([]byte("dictionary size code"))
		if err := w.Close(); err != nil {
			return ev.Fail("Close: "+err.Error(), "part", "header", "result", "close")
		}
		res, err := ref.DecodeXZ(buf.Bytes())
		if err != nil {
			return ev.Fail("reference decoder rejects: "+err.Error(), "part", "header", "result", "invalid")
		}
		got := res.Streams[0].Blocks[0].DictCode
		want := ref.DictCodeFor(uint32(c.DictCap))
		if got != want {
			return ev.Fail(fmt.Sprintf("block header for DictCap %d carries code %d, want %d", c.DictCap, got, want), "part", "header", "result", relC18(int(got), int(want)))
		}
		if int64(res.Streams[0].Blocks[0].DictSize) < int64(c.DictCap) {
			return ev.Fail("declared size below capacity", "part", "header", "result", "below")
		}
		rec.Bulk(1)
		rec.Class("header_case")
		rec.Sample("header", map[string]any{"kind": "header", "dictcap": c.DictCap, "code": got})
		return nil
	case "readcode":
		// a block header carrying dictionary code c.Code, read by the library
		spec := ref.StreamSpec{Check: ref.CheckCRC32, Blocks: []ref.BlockSpec{{DictCode: 0, Chunks: []ref.ChunkSpec{{Kind: ref.CkRawD, Raw: []byte("x")}, {Kind: ref.CkEnd}}}}}
		s, plain, err := ref.EncodeXZ(spec)
		if err != nil {
			panic(err)
		}
		res, err := ref.DecodeXZ(s)
		if err != nil {
			panic(err)
		}
		off := res.Layout.Find("bh_filter_props")[0].Off
		s[off] = byte(c.Code)
		ref.Reseal(s, &res.Layout, off)
		r, err := xz.NewReader(bytes.NewReader(s))
		var got []byte
		if err == nil {
			got, err = io.ReadAll(r)
		}
		if c.Code <= 40 {
			if err != nil || !bytes.Equal(got, plain) {
				return ev.Fail(fmt.Sprintf("reader rejects valid dictionary code %d: %v", c.Code, err), "part", "readcode", "result", "rejected")
			}
		} else if err == nil {
			return ev.Fail(fmt.Sprintf("reader accepts invalid dictionary code %d", c.Code), "part", "readcode", "result", "accepted")
		}
		rec.Bulk(1)
		rec.Class("readcode_case")
		return nil
	}
	return ev.Fail("unknown case kind " + c.Kind)
}

func relC18(got, want int) string {
	switch {
	case got < want:
		return "too_small"
	case got > want:
		return "too_large"
	}
	return "equal"
}

func TestC18(t *testing.T) {
	rec := ev.New("C18", "exploration")
	rec.Rule = "exhaustive enumeration: all 256 code bytes through DecodeDictCap, all capacities 1..2^32-1 through EncodeDictCap against an independently written table of the 41 sizes (least code with size >= n), the dictionary byte of block headers emitted for boundary capacities, and block headers carrying each code byte read by the xz reader; every point is visited once, every point is non-trivial"
	rec.Assumptions = []string{"reader-side codes 29..40 (>= 1 GiB... dictionaries above 64 MiB would be allocated) are not opened", "header cases use DictCap <= 64 MiB (quick) / 256 MiB (thorough) because the writer allocates the dictionary"}
	enumerate(t, rec, checkC18, func(try func(caseC18) bool) {
		if !try(caseC18{Kind: "codes"}) {
			return
		}
		// all capacities, split over goroutines
		workers := runtime.NumCPU()
		const total = uint64(1<<32 - 1)
		pieces := uint64(workers * 8)
		var wg sync.WaitGroup
		var mu sync.Mutex
		ok := true
		ch := make(chan caseC18)
		for i := 0; i < workers; i++ {
			wg.Add(1)
			go func() {
				defer wg.Done()
				for c := range ch {
					if !try(c) {
						mu.Lock()
						ok = false
						mu.Unlock()
					}
				}
			}()
		}
		for i := uint64(0); i < pieces; i++ {
			lo := 1 + total/pieces*i
			hi := total / pieces * (i + 1)
			if i == pieces-1 {
				hi = total
			}
			ch <- caseC18{Kind: "range", Lo: lo, Hi: hi}
		}
		close(ch)
		wg.Wait()
		rec.Exhaustive = ok
		rec.Sample("range", caseC18{Kind: "range", Lo: 1, Hi: total / pieces})
		rec.Sample("codes", caseC18{Kind: "codes"})
		// emitted headers at interval edges
		tab := c18Table()
		limit := int64(64 << 20)
		if ev.Thorough() {
			limit = 256 << 20
		}
		for c := 0; c <= 40 && tab[c] <= limit; c++ {
			for _, d := range []int64{-1, 0, 1} {
				n := tab[c] + d
				if n < 4096 || n > limit {
					continue
				}
				if !try(caseC18{Kind: "header", DictCap: int(n)}) {
					return
				}
			}
		}
		for code := 0; code < 256; code++ {
			if code > 28 && code <= 40 {
				continue
			}
			if !try(caseC18{Kind: "readcode", Code: code}) {
				return
			}
		}
	})
}
