package props

import (
	"bytes"
	"encoding/binary"
	"fmt"
	"hash/crc32"
	"testing"

	"pgregory.net/rapid"

	"verif/ev"
	"verif/gen"
	"verif/ref"
)

// caseC04 is a valid .xz stream whose damaged variants are decoded.
type caseC04 struct {
	Src    gen.Src  `json:"src"`
	Bursts [][3]int `json:"bursts"` // drawn bursts: offset, bit length (<= 32), pattern seed
	InsVal byte     `json:"insval"` // drawn byte value for insertions
}

func cheapDict(s *gen.Src) {
	// every damaged variant is decoded by a fresh reader that allocates the
	// declared dictionary: keep it small
	if s.DictCode > 2 {
		s.DictCode = 2
	}
	if s.Cfg.DictCap > 8192 {
		s.Cfg.DictCap = 8192
	}
	if s.LZ.Dict > 8192 {
		s.LZ.Dict = 8192
	}
}

func drawC04(t *rapid.T) caseC04 {
	var c caseC04
	c.Src = gen.DrawSrc(t, "xz", 1500, "lib", "lib", "ref", "ref", "liblzma")
	cheapDict(&c.Src)
	if c.Src.Origin == "ref" && c.Src.NOps > 200 {
		c.Src.NOps = 200
	}
	if c.Src.Origin == "ref" && c.Src.NBlocks == 0 && rapid.Bool().Draw(t, "wantblocks") {
		c.Src.NBlocks = 2
	}
	n := rapid.IntRange(10, 40).Draw(t, "nbursts")
	for i := 0; i < n; i++ {
		c.Bursts = append(c.Bursts, [3]int{rapid.IntRange(0, 1<<20).Draw(t, "off"), rapid.IntRange(2, 32).Draw(t, "bits"), rapid.IntRange(1, 1<<30).Draw(t, "pat")})
	}
	c.InsVal = rapid.Byte().Draw(t, "insval")
	return c
}

// xzDamage decodes a damaged stream and applies oracle (1) (never a clean end
// with different content, for check-carrying streams) and, with mustErr,
// oracle (2) (the edit must be reported).
func xzDamage(rec *ev.Rec, orig *gen.Built, checkID byte, mod []byte, fault, region string, mustErr bool) *ev.Failure {
	rec.Eval(1)
	hasCheck := checkID != 0
	if bytes.Equal(mod, orig.Stream) {
		return nil
	}
	got, err := decodeAll("xz", mod, 4096)
	if err == nil {
		if hasCheck && !bytes.Equal(got, orig.Content) && bytes.Equal(ref.CheckValue(checkID, got), ref.CheckValue(checkID, orig.Content)) && len(got) == len(orig.Content) {
			// a genuine collision of the integrity check: not the reader's fault
			rec.Class("true_check_collision_ignored")
			return nil
		}
		if hasCheck && !bytes.Equal(got, orig.Content) {
			return ev.Fail(fmt.Sprintf("damaged stream (%s in %s) decodes without error to different content (%d bytes, original %d, first difference at %d)",
				fault, region, len(got), len(orig.Content), firstDiff(got, orig.Content)), "fmt", "xz", "fault", fault, "region", region, "result", "clean_eof_different")
		}
		if mustErr {
			return ev.Fail(fmt.Sprintf("inconsistent metadata (%s in %s) is not reported: stream decodes without error", fault, region),
				"fmt", "xz", "fault", fault, "region", region, "result", "accepted")
		}
	}
	rec.Class("fault=" + fault)
	rec.Class("region=" + region)
	rec.NonTrivial(ev.Hash64(fault, region, mod))
	return nil
}

func putCRC(b []byte, at int, from, to int) {
	binary.LittleEndian.PutUint32(b[at:], crc32.ChecksumIEEE(b[from:to]))
}

// structuralEdits returns the field-level edits with re-sealed CRC32s.
type edit struct {
	fault, region string
	data          []byte
}

// flagSweeps enumerates every value of every flags byte.
func flagSweeps(b *gen.Built, res *ref.XZResult) []edit {
	var out []edit
	lay := &res.Layout
	hdr := lay.Find("stream_flags")[0]
	ftr := lay.Find("ft_flags")[0]
	for i := 0; i < 2; i++ {
		for v := 0; v < 256; v++ {
			for _, where := range []string{"header", "footer", "both"} {
				d := append([]byte{}, b.Stream...)
				if where != "footer" {
					d[hdr.Off+i] = byte(v)
					ref.Reseal(d, lay, hdr.Off)
				}
				if where != "header" {
					d[ftr.Off+i] = byte(v)
					ref.Reseal(d, lay, ftr.Off)
				}
				if bytes.Equal(d, b.Stream) {
					continue
				}
				region := "stream_flags"
				if where == "footer" {
					region = "ft_flags"
				}
				out = append(out, edit{fmt.Sprintf("flags_sweep_%s_byte%d", where, i), region, d})
			}
		}
	}
	for _, sp := range lay.Find("bh_flags") {
		for v := 0; v < 256; v++ {
			if byte(v) == b.Stream[sp.Off] {
				continue
			}
			d := append([]byte{}, b.Stream...)
			d[sp.Off] = byte(v)
			ref.Reseal(d, lay, sp.Off)
			out = append(out, edit{"flags_sweep_block", "bh_flags", d})
		}
	}
	return out
}

func structuralEdits(b *gen.Built, res *ref.XZResult) []edit {
	var out []edit
	lay := &res.Layout
	clone := func() []byte { return append([]byte{}, b.Stream...) }
	add := func(fault, region string, d []byte) { out = append(out, edit{fault, region, d}) }
	resealAt := func(d []byte, off int) { ref.Reseal(d, lay, off) }
	st := res.Streams[0]
	hdrFlags := lay.Find("stream_flags")[0]
	ftFlags := lay.Find("ft_flags")[0]
	// stream flags: reserved bits, unsupported check ids (header+footer sealed)
	for _, v := range []byte{0x01, 0x80} {
		d := clone()
		d[hdrFlags.Off] = v
		resealAt(d, hdrFlags.Off)
		add("reserved_stream_flag_byte0", "stream_flags", d)
		d = clone()
		d[hdrFlags.Off], d[ftFlags.Off] = v, v
		resealAt(d, hdrFlags.Off)
		resealAt(d, ftFlags.Off)
		add("reserved_stream_flag_byte0_both", "stream_flags", d)
	}
	for _, v := range []byte{0x10, 0x80} {
		d := clone()
		d[hdrFlags.Off+1] |= v
		d[ftFlags.Off+1] |= v
		resealAt(d, hdrFlags.Off)
		resealAt(d, ftFlags.Off)
		add("reserved_stream_flag_high_nibble", "stream_flags", d)
	}
	for _, id := range []byte{2, 3, 5, 6, 7, 8, 9, 11, 12, 13, 14, 15} {
		d := clone()
		d[hdrFlags.Off+1], d[ftFlags.Off+1] = id, id
		resealAt(d, hdrFlags.Off)
		resealAt(d, ftFlags.Off)
		add("unsupported_check_id", "stream_flags", d)
	}
	// footer flags != header flags (both individually valid and sealed)
	for _, id := range []byte{0, 1, 4, 10} {
		if id == st.Check {
			continue
		}
		d := clone()
		d[ftFlags.Off+1] = id
		resealAt(d, ftFlags.Off)
		add("footer_flags_differ", "ft_flags", d)
		d = clone()
		d[hdrFlags.Off+1] = id
		resealAt(d, hdrFlags.Off)
		add("header_flags_differ", "stream_flags", d)
	}
	// backward size
	bs := lay.Find("ft_bsize")[0]
	for _, dlt := range []int{-1, 1, 256} {
		d := clone()
		v := int64(binary.LittleEndian.Uint32(d[bs.Off:])) + int64(dlt)
		if v < 0 {
			continue
		}
		binary.LittleEndian.PutUint32(d[bs.Off:], uint32(v))
		resealAt(d, bs.Off)
		add("backward_size", "ft_bsize", d)
	}
	// backward size: every single bit (the stored value is size/4 - 1 in 32
	// bits; the high bits matter as much as the low ones)
	for bit := 0; bit < 32; bit++ {
		d := clone()
		d[bs.Off+bit/8] ^= 1 << uint(bit%8)
		resealAt(d, bs.Off)
		add("backward_size_bit", "ft_bsize", d)
	}
	// index records of two blocks exchanged, or changed in opposite
	// directions so that the count and both sums stay the same
	{
		up, us := lay.Find("idx_unpadded"), lay.Find("idx_usize")
		for i := 0; i+1 < len(up) && i+1 < len(us) && i < 3; i++ {
			j := i + 1
			a := append(append([]byte{}, b.Stream[up[i].Off:up[i].Off+up[i].Len]...), b.Stream[us[i].Off:us[i].Off+us[i].Len]...)
			c := append(append([]byte{}, b.Stream[up[j].Off:up[j].Off+up[j].Len]...), b.Stream[us[j].Off:us[j].Off+us[j].Len]...)
			if len(a) == len(c) && !bytes.Equal(a, c) && us[i].Off == up[i].Off+up[i].Len && up[j].Off == us[i].Off+us[i].Len && us[j].Off == up[j].Off+up[j].Len {
				d := clone()
				copy(d[up[i].Off:], c)
				copy(d[up[j].Off:], a)
				resealAt(d, up[i].Off)
				add("index_records_swapped", "idx_unpadded", d)
			}
			for _, kind := range [][]ref.Span{up, us} {
				vi, vj := int(b.Stream[kind[i].Off]&0x7F), int(b.Stream[kind[j].Off]&0x7F)
				for _, dl := range []int{1, 4} {
					if vi+dl <= 0x7F && vj-dl >= 1 {
						d := clone()
						d[kind[i].Off] = d[kind[i].Off]&0x80 | byte(vi+dl)
						d[kind[j].Off] = d[kind[j].Off]&0x80 | byte(vj-dl)
						resealAt(d, kind[i].Off)
						add("index_records_shifted", kind[i].Kind, d)
					}
				}
			}
		}
	}
	// block header declared longer than written: size byte raised by k, 4k
	// zero bytes of (legal) header padding inserted before the CRC32, CRC32
	// re-computed - the index, left alone, no longer matches the block
	{
		szs, crcs := lay.Find("bh_size"), lay.Find("bh_crc")
		for i := 0; i < len(szs) && i < len(crcs) && i < 2; i++ {
			for _, k := range []int{1, 3} {
				if int(b.Stream[szs[i].Off])+k > 255 {
					continue
				}
				d := append([]byte{}, b.Stream[:crcs[i].Off]...)
				d = append(d, make([]byte, 4*k)...)
				d[szs[i].Off] += byte(k)
				d = binary.LittleEndian.AppendUint32(d, crc32.ChecksumIEEE(d[szs[i].Off:]))
				d = append(d, b.Stream[crcs[i].Off+4:]...)
				add("header_lengthened", "bh_size", d)
			}
		}
	}
	// block header declared SHORTER than its fields need: the first L-4 bytes
	// of the header kept, size byte lowered to match, CRC32 re-computed - the
	// fields (size fields, filter id, property size, properties) run into the
	// end of the header; with the rest of the stream behind it, and as the
	// last thing in the file
	{
		szs, crcs := lay.Find("bh_size"), lay.Find("bh_crc")
		for i := 0; i < len(szs) && i < len(crcs) && i < 2; i++ {
			hb := b.Stream[szs[i].Off:crcs[i].Off]
			for L := 8; L < len(hb)+4 && L <= 24; L += 4 {
				d := append([]byte{}, b.Stream[:szs[i].Off]...)
				h := append([]byte{}, hb[:L-4]...)
				h[0] = byte(L/4 - 1)
				h = binary.LittleEndian.AppendUint32(h, crc32.ChecksumIEEE(h))
				d = append(d, h...)
				add("header_shortened_then_eof", "bh_size", append([]byte{}, d...))
				d = append(d, b.Stream[crcs[i].Off+4:]...)
				add("header_shortened", "bh_size", d)
			}
		}
	}
	// index: record count, records, padding
	cnt := lay.Find("idx_count")[0]
	for _, dlt := range []int{-1, 1} {
		d := clone()
		v := int(d[cnt.Off]&0x7F) + dlt
		if cnt.Len == 1 && (v < 0 || v > 0x7F) {
			continue
		}
		if cnt.Len > 1 && (v < 0 || v > 0x7F) {
			continue
		}
		d[cnt.Off] = d[cnt.Off]&0x80 | byte(v)
		if cnt.Len == 1 || v != 0 || true {
			resealAt(d, cnt.Off)
			add("record_count", "idx_count", d)
		}
	}
	for _, kind := range []string{"idx_unpadded", "idx_usize"} {
		for _, sp := range lay.Find(kind) {
			for _, dlt := range []int{-1, 1} {
				d := clone()
				v := int(d[sp.Off]&0x7F) + dlt
				if v < 0 || v > 0x7F {
					continue
				}
				if sp.Len > 1 && false {
					continue
				}
				d[sp.Off] = d[sp.Off]&0x80 | byte(v)
				resealAt(d, sp.Off)
				add("index_record", kind, d)
			}
		}
	}
	for _, sp := range lay.Find("idx_pad") {
		for i := 0; i < sp.Len; i++ {
			d := clone()
			d[sp.Off+i] = 1
			resealAt(d, sp.Off)
			add("nonzero_padding", "idx_pad", d)
		}
	}
	// blocks
	for _, sp := range lay.Find("blk_pad") {
		for i := 0; i < sp.Len; i++ {
			d := clone()
			d[sp.Off+i] = 0x80
			add("nonzero_padding", "blk_pad", d)
		}
	}
	for _, sp := range lay.Find("bh_pad") {
		for i := 0; i < sp.Len; i++ {
			d := clone()
			d[sp.Off+i] = 1
			resealAt(d, sp.Off)
			add("nonzero_padding", "bh_pad", d)
		}
	}
	for _, sp := range lay.Find("bh_flags") {
		for _, bit := range []byte{0x04, 0x08, 0x10, 0x20} {
			d := clone()
			d[sp.Off] |= bit
			resealAt(d, sp.Off)
			add("reserved_block_flag", "bh_flags", d)
		}
		// filter count 2..4 without further filters
		for _, fc := range []byte{1, 2, 3} {
			d := clone()
			d[sp.Off] = d[sp.Off]&^3 | fc
			resealAt(d, sp.Off)
			add("filter_count", "bh_flags", d)
		}
	}
	for _, sp := range lay.Find("bh_filter_id") {
		for _, id := range []byte{0x03, 0x04, 0x09, 0x20, 0x22, 0x7F} {
			d := clone()
			d[sp.Off] = id
			resealAt(d, sp.Off)
			add("unsupported_filter_id", "bh_filter_id", d)
		}
	}
	// filter ids that need two or three bytes and whose LOW byte is the id of
	// LZMA2 (0x121, 0x2021, 0x10021): the longer field takes the place of
	// header padding, CRC32 re-computed
	for _, sp := range lay.Find("bh_filter_id") {
		var hdr, crc, pad *ref.Span
		for _, t := range lay.Find("bh_size") {
			if t.Off <= sp.Off && (hdr == nil || t.Off > hdr.Off) {
				t := t
				hdr = &t
			}
		}
		for _, t := range lay.Find("bh_crc") {
			if t.Off > sp.Off && (crc == nil || t.Off < crc.Off) {
				t := t
				crc = &t
			}
		}
		for _, t := range lay.Find("bh_pad") {
			if crc != nil && t.Off+t.Len == crc.Off {
				t := t
				pad = &t
			}
		}
		if hdr == nil || crc == nil || pad == nil || sp.Len != 1 {
			continue
		}
		for _, enc := range [][]byte{{0xA1, 0x02}, {0xA1, 0x40}, {0xA1, 0x80, 0x04}} {
			extra := len(enc) - 1
			if pad.Len < extra {
				continue
			}
			d := append([]byte{}, b.Stream[:sp.Off]...)
			d = append(d, enc...)
			d = append(d, b.Stream[sp.Off+1:crc.Off-extra]...)
			d = binary.LittleEndian.AppendUint32(d, crc32.ChecksumIEEE(d[hdr.Off:]))
			d = append(d, b.Stream[crc.Off+4:]...)
			add("unsupported_filter_id_multibyte", "bh_filter_id", d)
		}
	}
	for _, sp := range lay.Find("bh_filter_psize") {
		for _, v := range []byte{0, 2} {
			d := clone()
			d[sp.Off] = v
			resealAt(d, sp.Off)
			add("filter_props_size", "bh_filter_psize", d)
		}
	}
	for _, sp := range lay.Find("bh_filter_props") {
		for _, v := range []byte{41, 63, 64, 255} {
			d := clone()
			d[sp.Off] = v
			resealAt(d, sp.Off)
			add("dict_size_code", "bh_filter_props", d)
		}
	}
	// size fields in block headers: altered in place, or added into the
	// header padding with a wrong value
	for _, kind := range []string{"bh_csize", "bh_usize"} {
		for _, sp := range lay.Find(kind) {
			for _, dlt := range []int{-1, 1} {
				d := clone()
				v := int(d[sp.Off]&0x7F) + dlt
				if v < 0 || v > 0x7F || (sp.Len == 1 && v == 0 && kind == "bh_csize") {
					continue
				}
				d[sp.Off] = d[sp.Off]&0x80 | byte(v)
				resealAt(d, sp.Off)
				add("size_field_altered", kind, d)
			}
			if sp.Len == 1 && b.Stream[sp.Off] != 0 {
				// a declared size of exactly zero for a block that holds data
				d := clone()
				d[sp.Off] = 0
				resealAt(d, sp.Off)
				add("size_field_zero", kind, d)
			}
		}
	}
	for bi, blk := range st.Blocks {
		if blk.HasCSize || blk.HasUSize {
			continue
		}
		var pad *ref.Span
		for i := range lay.Spans {
			s := &lay.Spans[i]
			if s.Kind == "bh_pad" && s.Block == bi && s.Stream == 0 {
				pad = s
			}
		}
		if pad == nil {
			continue
		}
		h0 := blk.HeaderOff
		for _, which := range []string{"csize", "usize"} {
			for _, dlt := range []int64{-1, 1, -1 << 40} {
				val := int64(blk.CompSize) + dlt
				flag := byte(0x40)
				if which == "usize" {
					val = int64(blk.USize) + dlt
					flag = 0x80
				}
				if dlt == -1<<40 {
					// a declared size of exactly zero
					if (which == "usize" && blk.USize == 0) || (which == "csize" && blk.CompSize == 0) {
						continue
					}
					val = 0
				} else if val < 0 || (which == "csize" && val == 0) {
					continue
				}
				vi := ref.PutVarint(nil, uint64(val))
				if len(vi) > pad.Len {
					continue
				}
				d := clone()
				// header: size flags [sizes] filter(3) pad crc
				hdr := []byte{d[h0], d[h0+1] | flag}
				hdr = append(hdr, vi...)
				hdr = append(hdr, d[h0+2:h0+5]...)
				for len(hdr) < blk.HeaderLen-4 {
					hdr = append(hdr, 0)
				}
				copy(d[h0:], hdr)
				putCRC(d, h0+blk.HeaderLen-4, h0, h0+blk.HeaderLen-4)
				add("size_field_added_wrong", "bh_"+which, d)
			}
		}
	}
	return out
}

func checkC04(c caseC04, rec *ev.Rec) *ev.Failure {
	b, err := c.Src.Build()
	if err != nil {
		rec.Incomplete("stream construction: " + err.Error())
		return nil
	}
	res, err := ref.DecodeXZ(b.Stream)
	if err != nil || !bytes.Equal(res.Out, b.Content) || len(res.Streams) != 1 {
		rec.Incomplete(fmt.Sprintf("reference decoder disagrees with the constructed stream: %v", err))
		return nil
	}
	if got, err := decodeAll("xz", b.Stream, 4096); err != nil || !bytes.Equal(got, b.Content) {
		rec.Class("intact_stream_not_decoded(other property)")
		return nil
	}
	checkID := res.Streams[0].Check
	hasCheck := checkID != 0
	lay := &res.Layout
	s := b.Stream
	L := len(s)
	mod := make([]byte, 0, L+1)
	// every single-bit flip
	for i := 0; i < L; i++ {
		for bit := 0; bit < 8; bit++ {
			mod = append(mod[:0], s...)
			mod[i] ^= 1 << uint(bit)
			if f := xzDamage(rec, b, checkID, mod, "bitflip", regionAt(lay, i), false); f != nil {
				return f
			}
		}
	}
	// byte insertion at every offset, deletion at every offset
	for i := 0; i <= L; i++ {
		for _, v := range []byte{0x00, 0xFF, 0x21, c.InsVal} {
			mod = append(mod[:0], s[:i]...)
			mod = append(mod, v)
			mod = append(mod, s[i:]...)
			if f := xzDamage(rec, b, checkID, mod, "insert", regionAt(lay, i), false); f != nil {
				return f
			}
		}
		if i < L {
			mod = append(mod[:0], s[:i]...)
			mod = append(mod, s[i+1:]...)
			if f := xzDamage(rec, b, checkID, mod, "delete", regionAt(lay, i), false); f != nil {
				return f
			}
		}
	}
	// byte substitutions with a few values at every offset
	for i := 0; i < L; i++ {
		for _, v := range []byte{0x00, 0xFF, 0x80, 0x7F} {
			if s[i] == v {
				continue
			}
			mod = append(mod[:0], s...)
			mod[i] = v
			if f := xzDamage(rec, b, checkID, mod, "byteset", regionAt(lay, i), false); f != nil {
				return f
			}
		}
	}
	// drawn bursts of <= 32 bits
	for _, bu := range c.Bursts {
		startBit := bu[0] % (8 * L)
		p := gen.NewPRNG(uint64(bu[2]))
		mod = append(mod[:0], s...)
		for k := 0; k < bu[1] && startBit+k < 8*L; k++ {
			if k == 0 || k == bu[1]-1 || p.Next()%2 == 0 {
				mod[(startBit+k)/8] ^= 1 << uint((startBit+k)%8)
			}
		}
		if f := xzDamage(rec, b, checkID, mod, "burst", regionAt(lay, startBit/8), false); f != nil {
			return f
		}
	}
	// wrong check value is covered by the bit flips in blk_check; it must be
	// reported (inconsistency class of the statement)
	for _, sp := range lay.Find("blk_check") {
		mod = append(mod[:0], s...)
		mod[sp.Off+sp.Len-1] ^= 0x01
		if f := xzDamage(rec, b, checkID, mod, "wrong_check_value", "blk_check", true); f != nil {
			return f
		}
	}
	// structural edits with re-sealed CRC32
	for _, e := range structuralEdits(b, res) {
		// sanity of the mutator: the strict reference decoder must object too,
		// otherwise the edit is not an inconsistency and nothing may be demanded
		if _, rerr := ref.DecodeXZ(e.data); rerr == nil {
			rec.Incomplete(fmt.Sprintf("structural edit %s in %s yields a stream the reference decoder accepts", e.fault, e.region))
			return nil
		}
		if f := xzDamage(rec, b, checkID, e.data, e.fault, e.region, e.fault != "dict_size_code"); f != nil {
			return f
		}
	}
	// flag-byte sweeps: ALL 256 values of each byte of the stream flags (in the
	// header only, in the footer only, in both) and of every block header's
	// flags byte, covering CRC32 re-sealed. Whatever the reference decoder
	// rejects here is a reserved bit, an unsupported check / filter id, a
	// header/footer mismatch or a size/padding inconsistency caused by the
	// re-interpreted header: it must be reported.
	for _, e := range flagSweeps(b, res) {
		if _, rerr := ref.DecodeXZ(e.data); rerr == nil {
			rec.Class("sweep_value_still_valid")
			if f := xzDamage(rec, b, checkID, e.data, e.fault, e.region, false); f != nil {
				return f
			}
			continue
		}
		if f := xzDamage(rec, b, checkID, e.data, e.fault, e.region, true); f != nil {
			return f
		}
	}
	// generator-built streams once more with ONE metadata value replaced by a
	// wrong one - any value, also multi-byte ones and the extremes - and every
	// CRC32 correct: sizes in block headers, record count, index records,
	// backward size
	if c.Src.Origin == "ref" && len(c.Src.Lies) == 0 {
		st := res.Streams[0]
		var lies []gen.Lie
		for i := 0; i < len(st.Blocks) && i < 2; i++ {
			cs, us := uint64(st.Blocks[i].CompSize), uint64(st.Blocks[i].USize)
			for _, v := range []uint64{0, cs - 1, cs + 1, cs + 4, 1 << 31, 1<<63 - 1} {
				if v != cs && int64(v) >= 0 {
					lies = append(lies, gen.Lie{F: "csize", Blk: i, V: v})
				}
			}
			for _, v := range []uint64{0, us - 1, us + 1, us + 128, 1 << 32, 1<<63 - 1} {
				if v != us && int64(v) >= 0 {
					lies = append(lies, gen.Lie{F: "usize", Blk: i, V: v})
				}
			}
			for _, d := range []uint64{1, 3, 4, 128} {
				lies = append(lies, gen.Lie{F: "rec_unpadded", Blk: i, V: uint64(st.Blocks[i].Unpadded) + d}, gen.Lie{F: "rec_usize", Blk: i, V: us + d})
			}
			for _, d := range []uint64{1, 4, 8, 12} {
				if uint64(st.Blocks[i].Unpadded) > d+4 {
					lies = append(lies, gen.Lie{F: "rec_unpadded", Blk: i, V: uint64(st.Blocks[i].Unpadded) - d})
				}
				if us > d {
					lies = append(lies, gen.Lie{F: "rec_usize", Blk: i, V: us - d})
				}
			}
		}
		n := uint64(len(st.Blocks))
		for _, v := range []uint64{0, n - 1, n + 1, n + 128, 1 << 32} {
			if v != n && int64(v) >= 0 {
				lies = append(lies, gen.Lie{F: "count", V: v})
			}
		}
		// a self-consistent index (count, records, CRC, backward size all
		// agree) that lists fewer or more records than the stream has blocks
		for k := 1; k <= len(st.Blocks); k++ {
			lies = append(lies, gen.Lie{F: "droprecs", V: uint64(k)})
		}
		if n > 0 {
			lies = append(lies, gen.Lie{F: "droprecs", V: ^uint64(0)}, gen.Lie{F: "droprecs", V: ^uint64(2)})
		}
		bsz := uint64(binary.LittleEndian.Uint32(s[lay.Find("ft_bsize")[0].Off:]))
		for _, v := range []uint64{bsz + 1, bsz | 1<<30, bsz | 1<<31, 0xFFFFFFFF} {
			if v != bsz {
				lies = append(lies, gen.Lie{F: "backward", V: v})
			}
		}
		for _, l := range lies {
			src := c.Src
			src.Lies = []gen.Lie{l}
			b2, err := src.Build()
			if err != nil {
				rec.Class("lie_not_buildable:" + l.F)
				continue
			}
			if _, rerr := ref.DecodeXZ(b2.Stream); rerr == nil {
				rec.Class("lie_still_valid")
				continue
			}
			if f := xzDamage(rec, b, checkID, b2.Stream, "lie:"+l.F, "generator", true); f != nil {
				return f
			}
		}
	}
	rec.Class("origin="+c.Src.Origin, fmt.Sprintf("check=%d", res.Streams[0].Check), fmt.Sprintf("blocks=%d", min(len(res.Streams[0].Blocks), 3)))
	rec.Sample(c.Src.Origin+fmt.Sprint(hasCheck), map[string]any{"origin": c.Src.Origin, "stream_len": L, "content_len": len(b.Content), "check": res.Streams[0].Check, "blocks": len(res.Streams[0].Blocks)})
	return nil
}

func TestC04(t *testing.T) {
	rec := ev.New("C04", "fault_enumeration")
	rec.Rule = "rapid draws valid single-stream .xz files (library / reference generator with size fields, extra padding, empty blocks / liblzma; all four check types; <= ~2 KiB); per file: every single-bit flip, insertion of {00,FF,21,drawn} and deletion at every offset, substitution by {00,FF,80,7F} at every offset, 10-40 drawn bursts <= 32 bits, structural edits with re-sealed CRC32 (size fields altered / added with wrong value, index records, record count, backward size, header vs footer flags, block headers shortened below what their fields need, non-zero header/block/index padding, reserved bits, unsupported check / filter ids, filter count, property size, dictionary code, wrong check value), generator-built streams with one wrong metadata value of any size (block header sizes, record count, index records, backward size; 0, +-1, +4, +128, 2^31, 2^32, 2^63-1) and correct CRCs, streams whose index consistently lists fewer or more records than there are blocks, and sweeps of ALL 256 values of each stream-flags byte (header only / footer only / both) and of every block-flags byte, re-sealed; oracle 1 (check-carrying files, any modification): never err == nil with content != original; oracle 2 (structural edits, also check-less): err != nil; evaluations = damaged files decoded; non-trivial = modification changes the file; distinct = hash(fault kind, field, bytes)"
	rec.Assumptions = []string{"a payload modification that survives the range coder and yields a CRC32/CRC64/SHA-256 collision is ignored (probability <= 2^-32 per case)", "declared dictionaries <= 8 KiB so that each of the ~50 000 readers per file is cheap"}
	drive(t, rec, drawC04, checkC04)
}
