package props

import (
	"testing"

	"verif/ev"
	"verif/gen"
)

// xzLimitCases turns the enumerated LZMA2 limit scan of C08 (every fill level
// below the 64 KiB compressed limit of a chunk x four kinds of operation) and
// the single large writes that cross both chunk limits into xz writer cases:
// the same data, one Write call, closed; judged by the C01 / C02 oracles.
func xzLimitCases(rec *ev.Rec, try func(caseXZ) bool) {
	ok := limitScan(rec, func(c caseC08) bool {
		x := caseXZ{Cfg: c.Cfg, Data: c.Steps[0].recipe(), Part: gen.Partition{Kind: "single"}}
		x.Cfg.CheckSum = 1
		return try(x)
	})
	if !ok {
		return
	}
	if !propsSweep(rec, func(cfg gen.Cfg, data gen.Recipe) bool {
		return try(caseXZ{Cfg: cfg, Data: data, Part: gen.Partition{Kind: "single"}})
	}) {
		return
	}
	for i, n := range []int{1<<21 - 273, 1 << 21, 1<<21 + 5000} {
		if i%rec.Shards != rec.Shard {
			continue
		}
		x := caseXZ{Cfg: gen.Cfg{DefProps: true, DictCap: 1 << 16}, Part: gen.Partition{Kind: "single"},
			Data: gen.Recipe{{Kind: "random", Len: 100000, Seed: uint64(90 + i)}, {Kind: "run", B: 7, Len: n}, {Kind: "text", K: 4, Len: 500, Seed: 91}}}
		rec.Class("single_write_across_both_chunk_limits")
		if !try(x) {
			return
		}
	}
}

func TestC01(t *testing.T) {
	rec := ev.New("C01", "exploration")
	rec.Rule = "enumerated first: the C08 limit scan (every fill level 0..64 bytes below the compressed limit of a chunk x four kinds of operation) and single writes crossing both chunk limits, through the xz writer; then rapid draws (writer configuration passing Verify, data recipe, partition into Write calls incl. zero-length writes, tail of calls after Close); non-trivial = input non-empty and the emitted stream (parsed by the reference decoder) has >= 2 blocks or >= 2 chunks or an LZMA chunk containing a match; distinct = hash of the whole case"
	rec.Assumptions = []string{"blocks*DictCap <= 64 MiB (8 MiB for BinaryTree), <= 600 blocks", "BinaryTree: run-like segments <= 12000 bytes (the matcher is quadratic on runs)", "default reader configuration (8 MiB per block) only for streams of <= 16 blocks; all streams are read with ReaderConfig{DictCap: 4096}"}
	enumerate(t, rec, checkC01, func(try func(caseXZ) bool) { xzLimitCases(rec, try) })
	if t.Failed() {
		return
	}
	drive(t, rec, drawXZCase, checkC01)
}

func TestC02(t *testing.T) {
	rec := ev.New("C02", "exploration")
	rec.Rule = "the C01 generator; every emitted stream is decoded by the independent reference decoder (strict: CRCs, sizes, index, backward size, flags, paddings, check values, chunk order, range coder end state) and by liblzma, and limits / block sizes / declared dictionary >= max distance are evaluated on the parsed layout; non-trivial = some block contains an LZMA chunk with >= 1 literal and >= 1 match; distinct = hash of the whole case"
	rec.Assumptions = []string{"reference implementation cross-validated against liblzma and xz-utils in setup", "cases whose Write/Close fail are C01's business and only counted here"}
	enumerate(t, rec, checkC02, func(try func(caseXZ) bool) { xzLimitCases(rec, try) })
	if t.Failed() {
		return
	}
	drive(t, rec, drawXZCase, checkC02)
}
