package props

import (
	"testing"

	"verif/ev"
)

func TestC01(t *testing.T) {
	rec := ev.New("C01", "exploration")
	rec.Rule = "rapid draws (writer configuration passing Verify, data recipe, partition into Write calls incl. zero-length writes, tail of calls after Close); non-trivial = input non-empty and the emitted stream (parsed by the reference decoder) has >= 2 blocks or >= 2 chunks or an LZMA chunk containing a match; distinct = hash of the whole case"
	rec.Assumptions = []string{"blocks*DictCap <= 64 MiB (8 MiB for BinaryTree), <= 600 blocks", "BinaryTree: run-like segments <= 12000 bytes (the matcher is quadratic on runs)", "default reader configuration (8 MiB per block) only for streams of <= 16 blocks; all streams are read with ReaderConfig{DictCap: 4096}"}
	drive(t, rec, drawXZCase, checkC01)
}

func TestC02(t *testing.T) {
	rec := ev.New("C02", "exploration")
	rec.Rule = "the C01 generator; every emitted stream is decoded by the independent reference decoder (strict: CRCs, sizes, index, backward size, flags, paddings, check values, chunk order, range coder end state) and by liblzma, and limits / block sizes / declared dictionary >= max distance are evaluated on the parsed layout; non-trivial = some block contains an LZMA chunk with >= 1 literal and >= 1 match; distinct = hash of the whole case"
	rec.Assumptions = []string{"reference implementation cross-validated against liblzma and xz-utils in setup", "cases whose Write/Close fail are C01's business and only counted here"}
	drive(t, rec, drawXZCase, checkC02)
}
