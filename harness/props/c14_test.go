package props

import (
	"bytes"
	"crypto/sha256"
	"encoding/json"
	"fmt"
	"io"
	"os"
	"runtime"
	"sync"
	"sync/atomic"
	"testing"

	"github.com/ulikunitz/xz"
	"github.com/ulikunitz/xz/lzma"
	"pgregory.net/rapid"

	"verif/ev"
	"verif/gen"
)

// jobC14 is one independent reader or writer instance.
type jobC14 struct {
	Kind      string  `json:"kind"` // xzw xzr lzmaw lzmar lzma2w lzma2r
	Cfg       gen.Cfg `json:"cfg"`
	Data      int     `json:"data"`       // index into the case's data recipes (shared slices)
	ShareProp bool    `json:"share_prop"` // use the case-wide *Properties pointer
	ReadLen   int     `json:"readlen"`
	Yield     bool    `json:"yield"`
	// Cut > 0 (reader jobs): the reader is given only the first Cut per mille
	// of its stream and must fail the way it does when run alone
	Cut int `json:"cut,omitempty"`
}

// caseC14 is a set of jobs run sequentially and then concurrently.
type caseC14 struct {
	Procs int          `json:"procs"`
	Datas []gen.Recipe `json:"datas"`
	Jobs  []jobC14     `json:"jobs"`
}

func drawC14(t *rapid.T) caseC14 {
	var c caseC14
	c.Procs = rapid.SampledFrom([]int{1, 2, 4, 16}).Draw(t, "procs")
	nd := rapid.IntRange(1, 3).Draw(t, "ndatas")
	for i := 0; i < nd; i++ {
		r := gen.DrawRecipe(t, 3, 24000, "tiny", "small", "small", "medium")
		c.Datas = append(c.Datas, clampForBT(r, 6000))
	}
	nj := rapid.IntRange(2, 8).Draw(t, "njobs")
	for i := 0; i < nj; i++ {
		var j jobC14
		j.Kind = rapid.SampledFrom([]string{"xzw", "xzw", "xzr", "lzmaw", "lzmar", "lzma2w", "lzma2r"}).Draw(t, "kind")
		// classic LZMA instances may use the whole property space (lc up to 8,
		// lc+lp > 4), xz and LZMA2 only lc+lp <= 4
		gen.DrawProps(t, &j.Cfg, j.Kind != "lzmaw" && j.Kind != "lzmar")
		j.Cfg.DictCap = rapid.SampledFrom([]int{4096, 8192, 65536}).Draw(t, "dictcap")
		j.Cfg.BufSize = rapid.SampledFrom([]int{273, 512, 0}).Draw(t, "bufsize")
		j.Cfg.Matcher = rapid.IntRange(0, 1).Draw(t, "matcher")
		if j.Kind == "xzw" || j.Kind == "xzr" {
			j.Cfg.BlockSize = rapid.SampledFrom([]int64{0, 1000, 4096}).Draw(t, "blocksize")
			j.Cfg.CheckSum = rapid.SampledFrom([]byte{0, 1, 4, 10}).Draw(t, "check")
		}
		j.Data = rapid.IntRange(0, nd-1).Draw(t, "data")
		j.ShareProp = rapid.Bool().Draw(t, "shareprop")
		j.ReadLen = rapid.SampledFrom([]int{1, 100, 4096, 65536}).Draw(t, "readlen")
		j.Yield = rapid.Bool().Draw(t, "yield")
		if j.Kind[len(j.Kind)-1] == 'r' && rapid.IntRange(0, 3).Draw(t, "failing") == 0 {
			j.Cut = rapid.IntRange(1, 999).Draw(t, "cut")
		}
		c.Jobs = append(c.Jobs, j)
	}
	// rarely taken paths run concurrently: several readers (and writers) over
	// more than two uncompressed chunks each (> 128 KiB of incompressible data)
	if rapid.IntRange(0, 5).Draw(t, "bigraw") == 0 {
		c.Datas = append(c.Datas, gen.Recipe{{Kind: "random", Len: rapid.IntRange(135000, 150000).Draw(t, "rawlen"), Seed: rapid.Uint64().Draw(t, "rawseed")},
			{Kind: "text", K: 4, Len: 3000, Seed: 9}})
		idx := len(c.Datas) - 1
		for _, k := range []string{"xzr", "lzma2r", rapid.SampledFrom([]string{"xzr", "lzma2r", "xzw", "lzma2w"}).Draw(t, "rawjob")} {
			j := jobC14{Kind: k, Data: idx, ReadLen: rapid.SampledFrom([]int{100, 4096, 65536}).Draw(t, "rawreadlen"), Yield: true}
			j.Cfg.DefProps = true
			j.Cfg.DictCap = 65536
			c.Jobs = append(c.Jobs, j)
		}
	}
	// make sure the same (config, data) appears twice: determinism
	if rapid.Bool().Draw(t, "twin") {
		c.Jobs = append(c.Jobs, c.Jobs[0])
	}
	return c
}

type yieldWriter struct {
	buf   bytes.Buffer
	yield bool
}

func (w *yieldWriter) Write(p []byte) (int, error) {
	if w.yield {
		runtime.Gosched()
	}
	return w.buf.Write(p)
}

type yieldReader struct {
	r     *bytes.Reader
	yield bool
}

func (r *yieldReader) Read(p []byte) (int, error) {
	if r.yield {
		runtime.Gosched()
	}
	return r.r.Read(p)
}

// compressJob runs a writer job over data.
func compressJob(j jobC14, data []byte, shared *lzma.Properties) ([]byte, error) {
	w := &yieldWriter{yield: j.Yield}
	props := func(def *lzma.Properties) *lzma.Properties {
		if j.ShareProp {
			return shared
		}
		return def
	}
	var wc io.WriteCloser
	var err error
	switch j.Kind[:len(j.Kind)-1] {
	case "xz":
		cfg := j.Cfg.XZ()
		cfg.Properties = props(cfg.Properties)
		wc, err = cfg.NewWriter(w)
	case "lzma":
		cfg := j.Cfg.W1()
		cfg.Properties = props(cfg.Properties)
		wc, err = cfg.NewWriter(w)
	case "lzma2":
		cfg := j.Cfg.W2()
		cfg.Properties = props(cfg.Properties)
		wc, err = cfg.NewWriter2(w)
	}
	if err != nil {
		return nil, err
	}
	for pos := 0; pos < len(data); {
		n := 3000
		if pos+n > len(data) {
			n = len(data) - pos
		}
		if _, err := wc.Write(data[pos : pos+n]); err != nil {
			return nil, err
		}
		pos += n
	}
	if err := wc.Close(); err != nil {
		return nil, err
	}
	return w.buf.Bytes(), nil
}

// tweakOwnConfig does what a caller may do with a configuration value of its
// own: have it verified (which fills in the defaults) and then change the
// properties it now holds. That is nobody else's business: a configuration
// that leaves Properties nil must mean the same before and after.
func tweakOwnConfig(j jobC14) {
	if !j.Cfg.DefProps {
		return
	}
	tweak := func(p *lzma.Properties) {
		if p != nil {
			p.LC, p.LP, p.PB = 0, 0, 0
		}
	}
	switch j.Kind[:len(j.Kind)-1] {
	case "xz":
		cfg := j.Cfg.XZ()
		if cfg.Verify() == nil {
			tweak(cfg.Properties)
		}
	case "lzma":
		cfg := j.Cfg.W1()
		if cfg.Verify() == nil {
			tweak(cfg.Properties)
		}
	case "lzma2":
		cfg := j.Cfg.W2()
		if cfg.Verify() == nil {
			tweak(cfg.Properties)
		}
	}
}

func decompressJob(j jobC14, comp []byte) ([]byte, error) {
	if j.Cut > 0 {
		comp = comp[:int(int64(len(comp))*int64(j.Cut)/1000)]
	}
	src := &yieldReader{r: bytes.NewReader(comp), yield: j.Yield}
	var r io.Reader
	var err error
	switch j.Kind[:len(j.Kind)-1] {
	case "xz":
		r, err = xz.ReaderConfig{DictCap: 4096}.NewReader(src)
	case "lzma":
		r, err = lzma.ReaderConfig{DictCap: 4096}.NewReader(src)
	case "lzma2":
		r, err = lzma.Reader2Config{DictCap: j.Cfg.EffDict()}.NewReader2(src)
	}
	if err != nil {
		return nil, err
	}
	var out []byte
	buf := make([]byte, j.ReadLen)
	for {
		n, err := r.Read(buf)
		out = append(out, buf[:n]...)
		if err == io.EOF {
			return out, nil
		}
		if err != nil {
			return out, err
		}
	}
}

func checkC14(c caseC14, rec *ev.Rec) *ev.Failure {
	// the driver recovers the case from this line when the race detector
	// halts the process
	if b, err := json.Marshal(c); err == nil {
		fmt.Fprintf(os.Stdout, "C14-CASE: %s\n", b)
	}
	old := runtime.GOMAXPROCS(c.Procs)
	defer runtime.GOMAXPROCS(old)
	datas := make([][]byte, len(c.Datas))
	for i, r := range c.Datas {
		datas[i] = r.Expand()
	}
	shared := &lzma.Properties{LC: 2, LP: 1, PB: 3}
	type result struct {
		out []byte
		err error
	}
	var active, maxActive int32
	// runAll runs f(i) for every job from a common start signal.
	runAll := func(f func(i int) result) []result {
		res := make([]result, len(c.Jobs))
		var wg sync.WaitGroup
		start := make(chan struct{})
		for i := range c.Jobs {
			wg.Add(1)
			go func(i int) {
				defer wg.Done()
				<-start
				a := atomic.AddInt32(&active, 1)
				for {
					m := atomic.LoadInt32(&maxActive)
					if a <= m || atomic.CompareAndSwapInt32(&maxActive, m, a) {
						break
					}
				}
				res[i] = f(i)
				atomic.AddInt32(&active, -1)
			}(i)
		}
		close(start)
		wg.Wait()
		return res
	}
	// Phase 1 (concurrent, BEFORE any sequential use in this case, so that
	// unsynchronised lazy initialisation is exercised concurrently): every
	// job compresses its data.
	conc1 := runAll(func(i int) result {
		out, err := compressJob(c.Jobs[i], datas[c.Jobs[i].Data], shared)
		return result{out, err}
	})
	// Phase 2 (concurrent): reader jobs decode the phase-1 output of their own job.
	conc2 := runAll(func(i int) result {
		j := c.Jobs[i]
		if j.Kind[len(j.Kind)-1] == 'w' || conc1[i].err != nil {
			return conc1[i]
		}
		out, err := decompressJob(j, conc1[i].out)
		return result{out, err}
	})
	// sequential reference run (each writer twice: determinism)
	want := make([]result, len(c.Jobs))
	digest := sha256.New()
	for i, j := range c.Jobs {
		comp, err := compressJob(j, datas[j.Data], shared)
		if err != nil {
			rec.Class("sequential_write_fails(other property)")
			return nil
		}
		digest.Write(comp)
		tweakOwnConfig(j)
		again, err := compressJob(j, datas[j.Data], shared)
		if err != nil || !bytes.Equal(again, comp) {
			return ev.Fail(fmt.Sprintf("job %d (%s): compressing the same input twice gives different output (%d vs %d bytes)", i, j.Kind, len(comp), len(again)), "result", "nondeterministic_sequential", "kind", j.Kind)
		}
		if conc1[i].err != nil || !bytes.Equal(conc1[i].out, comp) {
			return ev.Fail(fmt.Sprintf("job %d (%s): compressed output of the concurrent run differs from the sequential run (err %v, %d vs %d bytes)", i, j.Kind, conc1[i].err, len(conc1[i].out), len(comp)), "result", "concurrent_differs", "kind", j.Kind)
		}
		if j.Kind[len(j.Kind)-1] == 'w' {
			want[i] = result{comp, nil}
		} else {
			out, err := decompressJob(j, comp)
			if j.Cut > 0 {
				// a reader on a truncated stream: fails (C05), after a prefix
				if err == nil || !bytes.HasPrefix(datas[j.Data], out) {
					rec.Class("sequential_truncated_read_unexpected(other property)")
					return nil
				}
				want[i] = result{out, err}
				continue
			}
			if err != nil || !bytes.Equal(out, datas[j.Data]) {
				rec.Class("sequential_read_fails(other property)")
				return nil
			}
			want[i] = result{out, nil}
		}
	}
	got := conc2
	for i, j := range c.Jobs {
		if j.Cut > 0 {
			if got[i].err == nil || got[i].err.Error() != want[i].err.Error() || !bytes.Equal(got[i].out, want[i].out) {
				return ev.Fail(fmt.Sprintf("job %d (%s on the first %d per mille of its stream): concurrent run gives (%d bytes, %v), sequential run (%d bytes, %v)", i, j.Kind, j.Cut, len(got[i].out), got[i].err, len(want[i].out), want[i].err),
					"result", "concurrent_differs", "kind", j.Kind, "cut", "yes")
			}
			rec.Class("failing_reader_job")
			continue
		}
		if got[i].err != nil {
			return ev.Fail(fmt.Sprintf("job %d (%s) fails when run concurrently with %d others: %v", i, j.Kind, len(c.Jobs)-1, got[i].err), "result", "concurrent_error", "kind", j.Kind)
		}
		if !bytes.Equal(got[i].out, want[i].out) {
			return ev.Fail(fmt.Sprintf("job %d (%s): result of the concurrent run differs from the sequential run (%d vs %d bytes, first difference at %d)", i, j.Kind, len(got[i].out), len(want[i].out), firstDiff(got[i].out, want[i].out)),
				"result", "concurrent_differs", "kind", j.Kind)
		}
	}
	// "identical bytes on every run": the driver compares this digest between
	// two processes that run the same cases
	rec.CaseDigest(c, fmt.Sprintf("%x", digest.Sum(nil)))
	if *shared != (lzma.Properties{LC: 2, LP: 1, PB: 3}) {
		return ev.Fail("the shared Properties value was modified", "result", "shared_modified")
	}
	matchers := map[int]bool{}
	for _, j := range c.Jobs {
		matchers[j.Cfg.Matcher] = true
		rec.Class("job=" + j.Kind)
	}
	rec.Class(fmt.Sprintf("procs=%d", c.Procs), fmt.Sprintf("jobs=%d", min(len(c.Jobs), 9)))
	if maxActive >= 2 {
		rec.Class("overlap_observed")
	}
	if len(c.Jobs) >= 2 && len(matchers) == 2 {
		rec.NonTrivial(caseHash(c))
	}
	rec.Sample(fmt.Sprint(c.Procs), map[string]any{"procs": c.Procs, "jobs": jobKinds(c.Jobs), "data_lens": dataLens(datas), "max_active": maxActive})
	return nil
}

func jobKinds(j []jobC14) []string {
	var r []string
	for _, x := range j {
		r = append(r, x.Kind)
	}
	return r
}

func dataLens(d [][]byte) []int {
	var r []int
	for _, x := range d {
		r = append(r, len(x))
	}
	return r
}

func TestC14(t *testing.T) {
	rec := ev.New("C14", "exploration")
	rec.Rule = "built with -race: rapid draws 2-9 jobs (xz / LZMA / LZMA2 writer or reader, configuration, both match finders) - a quarter of the reader jobs are given a truncated stream and must fail, after the same bytes and with the same error, as when run alone -, some sharing read-only inputs (the same *lzma.Properties, the same data slice, the same compressed bytes), GOMAXPROCS in {1,2,4,16} and runtime.Gosched() points inside the sink / source wrappers; the jobs run sequentially (each writer twice: determinism), then concurrently from a common start signal; oracle: no race-detector report (GORACE=halt_on_error: the driver maps the report to a violation carrying the job list), every concurrent result byte-identical to its sequential result, shared inputs unmodified; one shard runs in two processes and the compressed outputs of every case must be identical in both (output identical on every run); non-trivial = >= 2 jobs with both match finders present; distinct = hash of the case"
	rec.Assumptions = []string{"interleavings are sampled by the Go scheduler, not enumerated", "the race detector is happens-before based: unsynchronised shared state is reported when both accesses execute"}
	drive(t, rec, drawC14, checkC14)
}
