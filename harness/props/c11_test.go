package props

import (
	"bytes"
	"encoding/binary"
	"encoding/hex"
	"fmt"
	"hash/crc32"
	"os"
	"strconv"
	"strings"
	"testing"
	"time"

	"pgregory.net/rapid"

	"verif/ev"
	"verif/gen"
	"verif/hostile"
	"verif/ref"
)

// mutC11 is one byte-level mutation. Offsets are reduced modulo the current
// length when applied.
type mutC11 struct {
	Kind string `json:"kind"` // flip set insert delete truncate dup fill field
	Off  int    `json:"off"`
	Len  int    `json:"len,omitempty"`
	Val  byte   `json:"val,omitempty"`
}

// caseC11 is a hostile input: mutations of a valid stream (optionally with
// all header CRC32s re-sealed), a random string, or a valid prefix with a
// random tail. Raw (hex) is used by replay files of fuzzer findings.
type caseC11 struct {
	Fmt    string   `json:"fmt"`
	Mode   string   `json:"mode"` // mutate | random | magic | raw
	Src    *gen.Src `json:"src,omitempty"`
	Muts   []mutC11 `json:"muts,omitempty"`
	Reseal bool     `json:"reseal,omitempty"`
	Seed   uint64   `json:"seed,omitempty"`
	N      int      `json:"n,omitempty"`
	Raw    string   `json:"raw,omitempty"`
	Reads  []int    `json:"reads,omitempty"`
}

func drawC11(t *rapid.T) caseC11 {
	var c caseC11
	c.Fmt = rapid.SampledFrom([]string{"xz", "xz", "lzma", "lzma2"}).Draw(t, "fmt")
	c.Mode = rapid.SampledFrom([]string{"mutate", "mutate", "mutate", "mutate", "mutate", "mutate", "random", "magic", "absurd"}).Draw(t, "mode")
	if c.Mode == "absurd" {
		// a generator-built xz stream whose block header sizes, index count,
		// index records or backward size are replaced by hostile values
		// (0, 1, 2^31, 2^32, 2^62, 2^63-1, 2^63, 2^64-1 ...) with every CRC32
		// correct: the values reach the size arithmetic of the reader
		c.Fmt = "xz"
		s := gen.DrawSrc(t, "xz", 3000, "ref")
		cheapDict(&s)
		if s.NBlocks == 0 {
			s.NBlocks = 2
		}
		for i, n := 0, rapid.IntRange(1, 2).Draw(t, "nlies"); i < n; i++ {
			s.Lies = append(s.Lies, gen.Lie{F: rapid.SampledFrom([]string{"csize", "usize", "usize", "count", "rec_unpadded", "rec_usize", "backward"}).Draw(t, "lief"),
				Blk: rapid.IntRange(0, s.NBlocks-1).Draw(t, "lieblk"), V: rapid.SampledFrom(gen.HostileValues).Draw(t, "liev")})
		}
		c.Src = &s
		c.Reads = []int{rapid.SampledFrom([]int{1, 7, 4096, 65536}).Draw(t, "readlen")}
		return c
	}
	c.Reads = []int{rapid.SampledFrom([]int{1, 7, 4096, 65536}).Draw(t, "readlen")}
	switch c.Mode {
	case "random":
		c.Seed = rapid.Uint64().Draw(t, "seed")
		c.N = rapid.IntRange(0, 300).Draw(t, "n")
		return c
	case "magic":
		c.Seed = rapid.Uint64().Draw(t, "seed")
		c.N = rapid.IntRange(0, 400).Draw(t, "n")
	}
	s := gen.DrawSrc(t, c.Fmt, 4000, "lib", "ref", "ref", "liblzma", "corpus")
	cheapDict(&s)
	c.Src = &s
	if c.Mode == "magic" {
		return c
	}
	c.Reseal = c.Fmt == "xz" && rapid.Bool().Draw(t, "reseal")
	n := rapid.IntRange(1, 8).Draw(t, "nmuts")
	kinds := []string{"flip", "set", "insert", "delete", "truncate", "dup", "fill", "field"}
	if c.Reseal {
		kinds = []string{"flip", "set", "fill", "field", "field"}
	}
	for i := 0; i < n; i++ {
		m := mutC11{Kind: rapid.SampledFrom(kinds).Draw(t, "mkind"), Off: rapid.IntRange(0, 1<<20).Draw(t, "moff")}
		if rapid.IntRange(0, 2).Draw(t, "early") == 0 {
			m.Off = rapid.IntRange(0, 64).Draw(t, "moff_early")
		}
		m.Len = rapid.IntRange(1, 16).Draw(t, "mlen")
		m.Val = rapid.SampledFrom([]byte{0, 0xFF, 0x80, 0x7F, 1, 0x21, rapid.Byte().Draw(t, "mv")}).Draw(t, "mval")
		c.Muts = append(c.Muts, m)
	}
	return c
}

func applyMuts(data []byte, muts []mutC11, lay *ref.Layout) []byte {
	d := append([]byte{}, data...)
	for _, m := range muts {
		if len(d) == 0 {
			break
		}
		off := m.Off % len(d)
		if off < 6 && m.Len%4 != 0 && len(d) > 24 {
			off += 12 // do not spend most cases on the magic bytes
		}
		switch m.Kind {
		case "flip":
			d[off] ^= 1 << (uint(m.Len) % 8)
		case "set":
			d[off] = m.Val
		case "insert":
			ins := bytes.Repeat([]byte{m.Val}, m.Len)
			d = append(d[:off], append(ins, d[off:]...)...)
		case "delete":
			end := off + m.Len
			if end > len(d) {
				end = len(d)
			}
			d = append(d[:off], d[end:]...)
		case "truncate":
			d = d[:off]
		case "dup":
			end := off + m.Len*8
			if end > len(d) {
				end = len(d)
			}
			d = append(d[:end], append(append([]byte{}, d[off:end]...), d[end:]...)...)
		case "fill":
			for i := off; i < off+m.Len && i < len(d); i++ {
				d[i] = m.Val
			}
		case "field":
			// hit a structural field of the original layout
			if lay != nil && len(lay.Spans) > 0 {
				var cand []ref.Span
				for _, s := range lay.Spans {
					if s.Kind != "ck_payload" && s.Kind != "ck_raw" && s.Kind != "lz_payload" {
						cand = append(cand, s)
					}
				}
				if len(cand) > 0 {
					s := cand[m.Off%len(cand)]
					i := s.Off + m.Len%s.Len
					if i < len(d) {
						if m.Len%2 == 0 {
							d[i] = m.Val
						} else {
							d[i] ^= 1 << (m.Val % 8)
						}
					}
				}
			}
		}
	}
	return d
}

// resealAll recomputes the CRC32 of stream header, block headers (following
// a possibly mutated size byte), index and footer at their original places.
func resealAll(d []byte, lay *ref.Layout) {
	put := func(at, from, to int) {
		if from >= 0 && to <= len(d) && at+4 <= len(d) && from <= to {
			binary.LittleEndian.PutUint32(d[at:], crc32.ChecksumIEEE(d[from:to]))
		}
	}
	for _, s := range lay.Find("stream_flags") {
		put(s.Off+2, s.Off, s.Off+2)
	}
	for _, s := range lay.Find("bh_size") {
		if s.Off < len(d) {
			hl := (int(d[s.Off]) + 1) * 4
			put(s.Off+hl-4, s.Off, s.Off+hl-4)
		}
	}
	ind := lay.Find("idx_ind")
	crc := lay.Find("idx_crc")
	for i := range ind {
		if i < len(crc) {
			put(crc[i].Off, ind[i].Off, crc[i].Off)
		}
	}
	for _, s := range lay.Find("ft_crc") {
		put(s.Off, s.Off+4, s.Off+10)
	}
}

func (c caseC11) input(rec *ev.Rec) ([]byte, bool) {
	switch c.Mode {
	case "raw":
		if strings.HasPrefix(c.Raw, "file:") {
			// a failing input saved by the native fuzzer ("go test fuzz v1")
			txt, err := os.ReadFile(strings.TrimPrefix(c.Raw, "file:"))
			if err != nil {
				rec.Incomplete("cannot read fuzz input: " + err.Error())
				return nil, false
			}
			lines := strings.Split(string(txt), "\n")
			for _, l := range lines {
				if strings.HasPrefix(l, "[]byte(") && strings.HasSuffix(l, ")") {
					q, err := strconv.Unquote(l[len("[]byte(") : len(l)-1])
					if err != nil {
						rec.Incomplete("cannot parse fuzz input: " + err.Error())
						return nil, false
					}
					return []byte(q), true
				}
			}
			rec.Incomplete("fuzz input file without []byte line")
			return nil, false
		}
		b, _ := hex.DecodeString(c.Raw)
		return b, true
	case "random":
		b := make([]byte, c.N)
		gen.NewPRNG(c.Seed).Fill(b)
		return b, true
	}
	b, err := c.Src.Build()
	if err != nil {
		rec.Incomplete("stream construction: " + err.Error())
		return nil, false
	}
	if c.Mode == "magic" {
		keep := map[string]int{"xz": 12, "lzma": 13, "lzma2": 6}[c.Fmt]
		if c.N%3 == 0 {
			keep = len(b.Stream) / 2
		}
		if keep > len(b.Stream) {
			keep = len(b.Stream)
		}
		tail := make([]byte, c.N)
		gen.NewPRNG(c.Seed).Fill(tail)
		return append(append([]byte{}, b.Stream[:keep]...), tail...), true
	}
	if c.Mode == "absurd" {
		return b.Stream, true
	}
	lay, _ := layoutOf(c.Fmt, b)
	d := applyMuts(b.Stream, c.Muts, lay)
	if c.Reseal && lay != nil {
		resealAll(d, lay)
	}
	return d, true
}

func checkC11(c caseC11, rec *ev.Rec) *ev.Failure {
	data, ok := c.input(rec)
	if !ok {
		return nil
	}
	if hostile.DictTooLarge(c.Fmt, data) {
		rec.Class("excluded_dictionary>64MiB")
		return nil
	}
	readLen := 4096
	if len(c.Reads) > 0 && c.Reads[0] > 0 {
		readLen = c.Reads[0]
	}
	capOut := 8 << 20
	if ev.Thorough() {
		capOut = 64 << 20
	}
	done := make(chan hostile.Result, 1)
	go func() { done <- hostile.Read(c.Fmt, data, readLen, capOut) }()
	var res hostile.Result
	select {
	case res = <-done:
	case <-time.After(6 * time.Second):
		// slow or stuck (the slowest legitimate case - 8 MiB of output - takes
		// well under a second): give it ten times the budget before calling it
		// a stall; the total stays below the deadline of the test process, so
		// a Read call that never returns is reported, not timed out
		select {
		case res = <-done:
			rec.Class("slow_case(>6s)")
		case <-time.After(60 * time.Second):
			return ev.Fail(fmt.Sprintf("%s reader did not return within 66 s on a %d-byte input", c.Fmt, len(data)), "fmt", c.Fmt, "result", "hang")
		}
	}
	if res.Fail != "" {
		return ev.Fail(res.Fail, "fmt", c.Fmt, "result", res.Kind, "site", res.Site)
	}
	rec.Class("fmt="+c.Fmt, "mode="+c.Mode, "outcome="+c.Fmt+":"+res.Class)
	if c.Reseal {
		rec.Class("resealed")
	}
	if c.Mode != "raw" && (res.Class != "open:"+"xz: invalid header magic bytes") {
		rec.NonTrivial(ev.Hash64(c.Fmt, data))
	}
	rec.Sample(c.Fmt+c.Mode+res.Class, map[string]any{"fmt": c.Fmt, "mode": c.Mode, "muts": c.Muts, "reseal": c.Reseal, "input_len": len(data), "input_head_hex": hex.EncodeToString(data[:min(len(data), 48)]), "outcome": res.Class})
	return nil
}

func TestC11(t *testing.T) {
	rec := ev.New("C11", "exploration")
	rec.Rule = "rapid builds hostile inputs for the xz, LZMA and LZMA2 readers: 1-8 stacked mutations (bit flip, byte set, insert, delete, truncate, duplicate range, fill, structural-field hit) of valid streams from all origins, for xz half of them restricted to in-place mutations with every header CRC32 (stream header, block headers following a mutated size byte, index, footer) re-sealed so that the input passes the CRC gates; purely random strings; valid prefix + random tail; generator-built xz streams with CRC-valid absurd metadata (block header sizes, index count and records, backward size set to 0, 1, 2^31, 2^32, 2^62, 2^63-1, 2^63, 2^64-1 ...); read with buffer lengths 1/7/4096/65536; oracle inside the target: no panic, 0 <= n <= len(p), no 1000 consecutive (0,nil) without input consumption, return within the (10x re-checked) watchdog; thorough adds native coverage-guided fuzzing of the same target; non-trivial = input gets past the magic check or is not xz (histogram of outcomes = depth reached); distinct = hash of the input bytes"
	rec.Assumptions = []string{"inputs that may declare a dictionary above 64 MiB are excluded (xz: any occurrence of 21 01 cc with cc in 29..40; lzma: header field) and counted", "reading stops after 8 MiB (quick) / 64 MiB (thorough) of output", "errors are the contract for invalid input: only panics, stalls and n > len(p) are violations"}
	drive(t, rec, drawC11, checkC11)
}
