package props

import (
	"bytes"
	"fmt"
	"io"

	"github.com/ulikunitz/xz"
	"github.com/ulikunitz/xz/lzma"

	"verif/gen"
	"verif/ref"
)

// openReader opens the library reader for a format. dictCap is the reader
// configuration value (0 = default).
func openReader(format string, src io.Reader, dictCap int) (io.Reader, error) {
	switch format {
	case "xz":
		return xz.ReaderConfig{DictCap: dictCap}.NewReader(src)
	case "lzma2":
		return lzma.Reader2Config{DictCap: dictCap}.NewReader2(src)
	case "lzma":
		return lzma.ReaderConfig{DictCap: dictCap}.NewReader(src)
	}
	panic("unknown format " + format)
}

// readerDict returns a cheap reader dictionary capacity able to decode b.
func readerDict(format string, b *gen.Built) int {
	if format == "lzma2" {
		d := int(b.DictSize)
		if d < 4096 {
			d = 4096
		}
		return d
	}
	return 4096
}

// decodeAll opens and reads everything.
func decodeAll(format string, data []byte, dictCap int) ([]byte, error) {
	r, err := openReader(format, bytes.NewReader(data), dictCap)
	if err != nil {
		return nil, err
	}
	return io.ReadAll(r)
}

// priorDecode uses a reader of the same format and configuration in the same
// process before the decode under judgement: on a truncated copy of the stream
// (trunc), on a copy with one byte changed (flip), or on the intact stream but
// abandoned after a first Read (abandon). at is a position in per mille. What
// the earlier instance returns is not judged here; a later instance must not
// be influenced by it (instances share no state a caller can see).
func priorDecode(format string, stream []byte, dictCap int, kind string, at int) {
	defer func() { recover() }()
	if len(stream) == 0 {
		return
	}
	pos := int(int64(len(stream)) * int64(at) / 1000)
	if pos >= len(stream) {
		pos = len(stream) - 1
	}
	switch kind {
	case "trunc":
		decodeAll(format, stream[:pos], dictCap)
	case "flip":
		c := append([]byte{}, stream...)
		c[pos] ^= 0x20
		decodeAll(format, c, dictCap)
	case "abandon":
		r, err := openReader(format, bytes.NewReader(stream), dictCap)
		if err == nil {
			r.Read(make([]byte, 1+at%300))
		}
	}
}

// priorWrite uses a writer of the same configuration in the same process
// before the one under judgement: it takes n bytes of text and is closed (odd
// n) or abandoned (even n). A later instance must not be influenced by it.
func priorWrite(open func(io.Writer) (io.WriteCloser, error), n int) {
	defer func() { recover() }()
	w, err := open(io.Discard)
	if err != nil {
		return
	}
	w.Write(gen.Recipe{{Kind: "text", K: 7, Len: n, Seed: uint64(n)}}.Expand())
	if n%2 == 1 {
		w.Close()
	}
}

// layoutOf parses a valid stream of any of the three formats into a layout
// whose spans cover it completely.
func layoutOf(format string, b *gen.Built) (*ref.Layout, error) {
	switch format {
	case "xz":
		res, err := ref.DecodeXZ(b.Stream)
		if err != nil {
			return nil, err
		}
		if !bytes.Equal(res.Out, b.Content) {
			return nil, fmt.Errorf("reference decoder output differs from content")
		}
		return &res.Layout, nil
	case "lzma2":
		lay := &ref.Layout{}
		res, err := ref.DecodeLZMA2(b.Stream, b.DictSize, true, lay, 0, 0, 0)
		if err != nil {
			return nil, err
		}
		if !bytes.Equal(res.Out, b.Content) || res.Consumed != len(b.Stream) {
			return nil, fmt.Errorf("reference decoder output differs from content")
		}
		return splitPayload(lay), nil
	case "lzma":
		res, err := ref.DecodeLZMA(b.Stream)
		if err != nil {
			return nil, err
		}
		if !bytes.Equal(res.Out, b.Content) {
			return nil, fmt.Errorf("reference decoder output differs from content")
		}
		lay := &ref.Layout{}
		lay.Spans = append(lay.Spans, ref.Span{Kind: "lz_props", Off: 0, Len: 1}, ref.Span{Kind: "lz_dict", Off: 1, Len: 4}, ref.Span{Kind: "lz_size", Off: 5, Len: 8},
			ref.Span{Kind: "rc_init", Off: 13, Len: 5})
		if len(b.Stream) > 18 {
			lay.Spans = append(lay.Spans, ref.Span{Kind: "lz_payload", Off: 18, Len: len(b.Stream) - 18})
		}
		return lay, nil
	}
	return nil, fmt.Errorf("unknown format")
}

// splitPayload splits every LZMA2 payload span into the five range coder
// initialisation bytes and the rest.
func splitPayload(lay *ref.Layout) *ref.Layout {
	out := &ref.Layout{}
	for _, s := range lay.Spans {
		if s.Kind == "ck_payload" {
			n := 5
			if s.Len < n {
				n = s.Len
			}
			a := s
			a.Kind, a.Len = "ck_rc_init", n
			out.Spans = append(out.Spans, a)
			if s.Len > n {
				b := s
				b.Off, b.Len = s.Off+n, s.Len-n
				out.Spans = append(out.Spans, b)
			}
			continue
		}
		out.Spans = append(out.Spans, s)
	}
	return out
}

// regionAt names the layout field containing offset off ("end" at len).
func regionAt(lay *ref.Layout, off int) string {
	if s := lay.KindAt(off); s != nil {
		return s.Kind
	}
	return "end"
}
