package props

import (
	"bytes"
	"fmt"
	"io"
	"strings"

	"github.com/ulikunitz/xz"
	"github.com/ulikunitz/xz/lzma"

	"verif/ev"
	"verif/fault"
	"verif/gen"
	"verif/ref"
)

// openReader opens the library reader for a format. dictCap is the reader
// configuration value (0 = default).
func openReader(format string, src io.Reader, dictCap int) (io.Reader, error) {
	switch format {
	case "xz":
		return xz.ReaderConfig{DictCap: dictCap}.NewReader(src)
	case "lzma2":
		return lzma.Reader2Config{DictCap: dictCap}.NewReader2(src)
	case "lzma":
		return lzma.ReaderConfig{DictCap: dictCap}.NewReader(src)
	}
	panic("unknown format " + format)
}

// readerDict returns a cheap reader dictionary capacity able to decode b.
func readerDict(format string, b *gen.Built) int {
	if format == "lzma2" {
		d := int(b.DictSize)
		if d < 4096 {
			d = 4096
		}
		return d
	}
	return 4096
}

// sourceFor returns the source a decode of data reads from. Which kind is a
// function of the data alone (so a case stays reproducible): a bytes.Reader,
// a source that hands everything out at once but reports io.EOF together with
// the last bytes, or one that cycles through short read lengths (with or
// without EOF alongside the last bytes). All are legal io.Readers; what a
// reader does must not depend on which one it gets.
func sourceFor(data []byte) io.Reader {
	n := len(data)
	if n > 64 {
		n = 64
	}
	switch h := ev.Hash64(data[:n]) + uint64(len(data)); h % 5 {
	case 1:
		return fault.NewFragReader(data, fault.Frag{Kind: "whole", EOFWith: true})
	case 2:
		return fault.NewFragReader(data, fault.Frag{Kind: "lens", Lens: []int{7, 1, 4096, 13}, EOFWith: h%2 == 0})
	case 3:
		return fault.NewFragReader(data, fault.Frag{Kind: "lens", Lens: []int{1, 2, 3, 5, 1000}, EOFWith: h%2 == 0})
	}
	return bytes.NewReader(data)
}

// decodeAll opens and reads everything.
func decodeAll(format string, data []byte, dictCap int) ([]byte, error) {
	r, err := openReader(format, sourceFor(data), dictCap)
	if err != nil {
		return nil, err
	}
	return io.ReadAll(r)
}

// priorDecode uses a reader of the same format and configuration in the same
// process before the decode under judgement: on a truncated copy of the stream
// (trunc), on a copy with one byte changed (flip), or on the intact stream but
// abandoned after a first Read (abandon). at is a position in per mille. What
// the earlier instance returns is not judged here; a later instance must not
// be influenced by it (instances share no state a caller can see).
func priorDecode(format string, stream []byte, dictCap int, kind string, at int) {
	defer func() { recover() }()
	if len(stream) == 0 {
		return
	}
	pos := int(int64(len(stream)) * int64(at) / 1000)
	if pos >= len(stream) {
		pos = len(stream) - 1
	}
	switch kind {
	case "trunc":
		decodeAll(format, stream[:pos], dictCap)
	case "flip":
		c := append([]byte{}, stream...)
		c[pos] ^= 0x20
		decodeAll(format, c, dictCap)
	case "abandon":
		r, err := openReader(format, bytes.NewReader(stream), dictCap)
		if err == nil {
			r.Read(make([]byte, 1+at%300))
		}
	}
}

// priorWrite uses a writer of the same configuration in the same process
// before the one under judgement: it takes n bytes of text and is closed (odd
// n) or abandoned (even n). A later instance must not be influenced by it.
func priorWrite(open func(io.Writer) (io.WriteCloser, error), n int) {
	defer func() { recover() }()
	w, err := open(io.Discard)
	if err != nil {
		return
	}
	w.Write(gen.Recipe{{Kind: "text", K: 7, Len: n, Seed: uint64(n)}}.Expand())
	if n%2 == 1 {
		w.Close()
	}
}

// onlyReader hides every method of a source but Read.
type onlyReader struct{ r io.Reader }

func (o onlyReader) Read(p []byte) (int, error) { return o.r.Read(p) }

// viaKinds are the ways a caller hands data to a writer: plain Write calls,
// or the standard helpers, which switch to optional methods of the writer
// when it implements them (io.Copy -> ReadFrom, io.WriteString ->
// WriteString), or WriteByte.
var viaKinds = []string{"", "", "", "", "copy", "copy", "string", "bytes"}

// viaWrite hands p to w in the given way and reports (bytes taken, error) as
// Write would.
func viaWrite(w io.Writer, p []byte, via string) (int, error) {
	if len(p) == 0 {
		// the helpers make no call at all for an empty payload; the histories
		// mean a Write call
		return w.Write(p)
	}
	switch via {
	case "copy":
		// a source offering only Read: io.Copy uses w.ReadFrom when w
		// implements io.ReaderFrom, and Write calls of up to 32 KiB otherwise
		n, err := io.Copy(w, onlyReader{sourceFor(p)}) // short reads, last bytes together with io.EOF: see sourceFor
		return int(n), err
	case "string":
		return io.WriteString(w, string(p))
	case "bytes":
		if bw, ok := w.(io.ByteWriter); ok && len(p) <= 200000 {
			for i, b := range p {
				if err := bw.WriteByte(b); err != nil {
					return i, err
				}
			}
			return len(p), nil
		}
	}
	return w.Write(p)
}

// optionalIfaces names the optional io interfaces v implements.
func optionalIfaces(v any) string {
	var s []string
	if _, ok := v.(io.ReaderFrom); ok {
		s = append(s, "ReaderFrom")
	}
	if _, ok := v.(io.WriterTo); ok {
		s = append(s, "WriterTo")
	}
	if _, ok := v.(io.ByteReader); ok {
		s = append(s, "ByteReader")
	}
	if _, ok := v.(io.ByteWriter); ok {
		s = append(s, "ByteWriter")
	}
	if _, ok := v.(io.StringWriter); ok {
		s = append(s, "StringWriter")
	}
	if len(s) == 0 {
		return "none"
	}
	return strings.Join(s, "+")
}

// decodeVia decodes data through the standard helper io.Copy (which uses the
// reader's WriteTo when it implements io.WriterTo) and through ReadByte when
// the reader implements io.ByteReader; each way must give what Read gives.
func decodeVia(format string, data []byte, dictCap int) (ways []string, outs [][]byte, errs []error) {
	r, err := openReader(format, bytes.NewReader(data), dictCap)
	var buf bytes.Buffer
	if err == nil {
		_, err = io.Copy(&buf, r)
	}
	ways, outs, errs = append(ways, "io.Copy("+optionalIfaces(r)+")"), append(outs, buf.Bytes()), append(errs, err)
	if r2, err2 := openReader(format, bytes.NewReader(data), dictCap); err2 == nil {
		if br, ok := r2.(io.ByteReader); ok {
			var out []byte
			var e error
			for {
				var b byte
				if b, e = br.ReadByte(); e != nil {
					break
				}
				out = append(out, b)
			}
			if e == io.EOF {
				e = nil
			}
			ways, outs, errs = append(ways, "ReadByte"), append(outs, out), append(errs, e)
		}
	}
	return
}

// layoutOf parses a valid stream of any of the three formats into a layout
// whose spans cover it completely.
func layoutOf(format string, b *gen.Built) (*ref.Layout, error) {
	switch format {
	case "xz":
		res, err := ref.DecodeXZ(b.Stream)
		if err != nil {
			return nil, err
		}
		if !bytes.Equal(res.Out, b.Content) {
			return nil, fmt.Errorf("reference decoder output differs from content")
		}
		return &res.Layout, nil
	case "lzma2":
		lay := &ref.Layout{}
		res, err := ref.DecodeLZMA2(b.Stream, b.DictSize, true, lay, 0, 0, 0)
		if err != nil {
			return nil, err
		}
		if !bytes.Equal(res.Out, b.Content) || res.Consumed != len(b.Stream) {
			return nil, fmt.Errorf("reference decoder output differs from content")
		}
		return splitPayload(lay), nil
	case "lzma":
		res, err := ref.DecodeLZMA(b.Stream)
		if err != nil {
			return nil, err
		}
		if !bytes.Equal(res.Out, b.Content) {
			return nil, fmt.Errorf("reference decoder output differs from content")
		}
		lay := &ref.Layout{}
		lay.Spans = append(lay.Spans, ref.Span{Kind: "lz_props", Off: 0, Len: 1}, ref.Span{Kind: "lz_dict", Off: 1, Len: 4}, ref.Span{Kind: "lz_size", Off: 5, Len: 8},
			ref.Span{Kind: "rc_init", Off: 13, Len: 5})
		if len(b.Stream) > 18 {
			lay.Spans = append(lay.Spans, ref.Span{Kind: "lz_payload", Off: 18, Len: len(b.Stream) - 18})
		}
		return lay, nil
	}
	return nil, fmt.Errorf("unknown format")
}

// splitPayload splits every LZMA2 payload span into the five range coder
// initialisation bytes and the rest.
func splitPayload(lay *ref.Layout) *ref.Layout {
	out := &ref.Layout{}
	for _, s := range lay.Spans {
		if s.Kind == "ck_payload" {
			n := 5
			if s.Len < n {
				n = s.Len
			}
			a := s
			a.Kind, a.Len = "ck_rc_init", n
			out.Spans = append(out.Spans, a)
			if s.Len > n {
				b := s
				b.Off, b.Len = s.Off+n, s.Len-n
				out.Spans = append(out.Spans, b)
			}
			continue
		}
		out.Spans = append(out.Spans, s)
	}
	return out
}

// regionAt names the layout field containing offset off ("end" at len).
func regionAt(lay *ref.Layout, off int) string {
	if s := lay.KindAt(off); s != nil {
		return s.Kind
	}
	return "end"
}
