package props

import (
	"encoding/json"
	"fmt"
	"os"
	"path/filepath"
	"runtime/debug"
	"sort"
	"strings"
	"testing"
	"time"

	"pgregory.net/rapid"

	"verif/ev"
)

// guard runs check and converts a panic of the code under test into a
// Failure.
func guard[C any](check func(C, *ev.Rec) *ev.Failure, c C, rec *ev.Rec) *ev.Failure {
	announce(rec, c)
	// a call into the code under test that never returns must become a
	// reported failure, not a timeout of the test process: the case runs in
	// its own goroutine under a generous watchdog (the slowest legitimate
	// case of any check takes seconds)
	done := make(chan *ev.Failure, 1)
	go func() { done <- guardPanic(check, c, rec) }()
	limit := 150 * time.Second
	if ev.Thorough() {
		limit = 600 * time.Second
	}
	select {
	case f := <-done:
		return f
	case <-time.After(limit):
		return ev.Fail(fmt.Sprintf("the case did not finish within %v: a call into the library under test does not return", limit), "result", "hang")
	}
}

// announce records the case that is about to run. A fatal error of the Go
// runtime inside the library (stack exhaustion, concurrent map writes, ...)
// cannot be recovered: the process dies, and the driver turns the last
// announced case into the replay file of a violation.
func announce[C any](rec *ev.Rec, c C) {
	dir := os.Getenv("VERIF_WORKDIR")
	if dir == "" {
		return
	}
	b, err := json.Marshal(replayFile[C]{Property: rec.ID, Case: c, Failure: &ev.Failure{Msg: "the process died while this case ran"}})
	if err != nil {
		return
	}
	os.WriteFile(filepath.Join(dir, "current-case.json"), b, 0o644)
}

func init() {
	// no code under test needs a deep stack: a recursion whose depth grows
	// with the input dies here after 64 MiB instead of after 1 GiB
	debug.SetMaxStack(64 << 20)
}

func guardPanic[C any](check func(C, *ev.Rec) *ev.Failure, c C, rec *ev.Rec) (f *ev.Failure) {
	defer func() {
		if r := recover(); r != nil {
			msg := fmt.Sprint(r)
			st := string(debug.Stack())
			site := panicSite(st)
			if site == "harness" {
				// no frame of the library under test on the stack: the check
				// itself is at fault; never reported against the library
				rec.Incomplete("the check panicked outside the library under test: " + msg + "\n" + st)
				f = nil
				return
			}
			f = ev.Fail("panic: "+msg+"\n"+st, "result", "panic", "panic", firstLine(msg), "site", site)
		}
	}()
	return check(c, rec)
}

func firstLine(s string) string {
	if i := strings.IndexByte(s, '\n'); i >= 0 {
		s = s[:i]
	}
	if len(s) > 80 {
		s = s[:80]
	}
	return s
}

// panicSite extracts the first frame inside the library under test.
func panicSite(stack string) string {
	lines := strings.Split(stack, "\n")
	for _, l := range lines {
		if strings.Contains(l, "github.com/ulikunitz/xz") && !strings.HasPrefix(l, "\t") {
			if i := strings.IndexByte(l, '('); i > 0 {
				l = l[:i]
			}
			return strings.TrimPrefix(l, "github.com/ulikunitz/xz")
		}
	}
	return "harness"
}

type replayFile[C any] struct {
	Property string      `json:"property"`
	Case     C           `json:"case"`
	Failure  *ev.Failure `json:"failure"`
}

// drive is the common skeleton of every generated check:
//  1. saved regression cases (regress/<ID>/*.json) are replayed without rapid;
//  2. with VERIF_REPLAY only that file is run;
//  3. otherwise rapid generates cases from gen and runs check on each.
//
// A failure that matches an open known finding is counted and generation
// continues; any other failure is shrunk by rapid and the minimal case is
// written as replay file.
func drive[C any](t *testing.T, rec *ev.Rec, gen func(*rapid.T) C, check func(C, *ev.Rec) *ev.Failure) {
	defer rec.Write()
	if path := os.Getenv("VERIF_REPLAY"); path != "" {
		replayOne(t, rec, path, check)
		return
	}
	replayDir(t, rec, check)
	if rec.Violations() > 0 {
		t.Fail()
		return
	}
	if gen == nil {
		return
	}
	var pending *C
	var pendingF *ev.Failure
	defer func() {
		if pending != nil {
			rec.Report(*pending, pendingF)
		}
	}()
	rapid.Check(t, func(rt *rapid.T) {
		c := gen(rt)
		rec.Eval(1)
		f := guard(check, c, rec)
		if f == nil {
			return
		}
		if rec.IsKnown(f) {
			return
		}
		if f.Sig["result"] == "hang" {
			// the call is still spinning in its goroutine: every further case
			// (and every shrink attempt) would compete with it or hang as
			// well. Report the case as it is and end this shard at once.
			rec.Report(c, f)
			rec.Write()
			fmt.Fprintf(os.Stderr, "hang: %s\n", f.Msg)
			os.Exit(1)
		}
		cc := c
		pending, pendingF = &cc, f
		rt.Fatalf("%s", f.Msg)
	})
}

func replayOne[C any](t *testing.T, rec *ev.Rec, path string, check func(C, *ev.Rec) *ev.Failure) {
	b, err := os.ReadFile(path)
	if err != nil {
		rec.Incomplete("cannot read replay file: " + err.Error())
		t.Fatalf("replay: %v", err)
	}
	var rf replayFile[C]
	if err := json.Unmarshal(b, &rf); err != nil {
		rec.Incomplete("cannot parse replay file: " + err.Error())
		t.Fatalf("replay: %v", err)
	}
	rec.Eval(1)
	rec.Class("replayed")
	if f := guard(check, rf.Case, rec); f != nil {
		if rec.IsKnown(f) {
			t.Logf("replay %s: known finding: %s", path, f.Msg)
			return
		}
		rec.Report(rf.Case, f)
		t.Errorf("replay %s: %s", path, f.Msg)
	}
}

func replayDir[C any](t *testing.T, rec *ev.Rec, check func(C, *ev.Rec) *ev.Failure) {
	if rec.Shard != 0 || os.Getenv("VERIF_NO_REGRESS") != "" {
		return
	}
	files, _ := filepath.Glob(filepath.Join(ev.Root(), "regress", rec.ID, "*.json"))
	sort.Strings(files)
	for _, f := range files {
		replayOne(t, rec, f, check)
	}
}

// enumerate is the skeleton for checks that enumerate a finite space
// themselves: run is called once (after the regression replays) and reports
// failures through fail.
func enumerate[C any](t *testing.T, rec *ev.Rec, check func(C, *ev.Rec) *ev.Failure, run func(try func(C) bool)) {
	defer rec.Write()
	if path := os.Getenv("VERIF_REPLAY"); path != "" {
		replayOne(t, rec, path, check)
		return
	}
	replayDir(t, rec, check)
	stop := false
	run(func(c C) bool {
		if stop {
			return false
		}
		rec.Eval(1)
		f := guard(check, c, rec)
		if f == nil || rec.IsKnown(f) {
			return true
		}
		rec.Report(c, f)
		if f.Sig["result"] == "hang" {
			rec.Write()
			fmt.Fprintf(os.Stderr, "hang: %s\n", f.Msg)
			os.Exit(1)
		}
		t.Errorf("%s", f.Msg)
		if rec.Violations() >= 5 {
			stop = true
		}
		return !stop
	})
}
