package props

// Native coverage-guided fuzz targets (thorough tier). Each target decodes
// the fuzzer's bytes into the same JSON-serialisable case the rapid check of
// the property uses and runs the same check function, so the oracle is the
// property's oracle and a failure is written as an ordinary replay file.
//
// The bytes are a decision tape: a few leading bytes choose the layout
// parameters, the rest is handed to the specification-driven stream generator
// (gen.Src.Tape), whose every choice - operation kind, length, distance,
// chunk kind, properties - is then owned by the fuzzer. Coverage feedback
// comes from the library's decoder, which the engine instruments.

import (
	"fmt"
	"os"
	"path/filepath"
	"sync"
	"testing"

	"verif/ev"
	"verif/fault"
	"verif/gen"
)

// tape is a minimal data provider over the fuzz input.
type tape struct{ b []byte }

func (t *tape) byte() byte {
	if len(t.b) == 0 {
		return 0
	}
	v := t.b[0]
	t.b = t.b[1:]
	return v
}
func (t *tape) pick(n int) int { return int(t.byte()) % n }
func (t *tape) rest() []byte   { r := append([]byte{}, t.b...); t.b = nil; return r }

func pickOf[T any](t *tape, vs ...T) T { return vs[t.pick(len(vs))] }

var (
	fuzzRecMu sync.Mutex
	fuzzRecs  = map[string]*ev.Rec{}
)

func fuzzRec(id string) *ev.Rec {
	fuzzRecMu.Lock()
	defer fuzzRecMu.Unlock()
	if r := fuzzRecs[id]; r != nil {
		return r
	}
	r := ev.New(id, "exploration")
	fuzzRecs[id] = r
	return r
}

// fuzzRun runs the property's check on a decoded case. A failure becomes a
// replay file (named in the message, which the driver parses); a harness-level
// disagreement between the oracles is logged for the driver and skipped.
func fuzzRun[C any](t *testing.T, id string, c C, check func(C, *ev.Rec) *ev.Failure) {
	rec := fuzzRec(id)
	f := guard(check, c, rec)
	if why := rec.TakeIncomplete(); why != "" {
		if dir := os.Getenv("VERIF_FUZZ_NOTES"); dir != "" {
			fh, err := os.OpenFile(filepath.Join(dir, id+".incomplete"), os.O_APPEND|os.O_CREATE|os.O_WRONLY, 0o644)
			if err == nil {
				fmt.Fprintln(fh, why)
				fh.Close()
			}
		}
		t.Skip(why)
	}
	if f == nil || rec.IsKnown(f) {
		return
	}
	rec.Report(c, f)
	if f.Sig["result"] == "hang" {
		// the call keeps spinning: end the process instead of hanging on the
		// next inputs as well
		fmt.Printf("VERIF-REPLAY %s\n%s\n", rec.LastReplay(), f.Msg)
		os.Exit(1)
	}
	t.Fatalf("VERIF-REPLAY %s\n%s", rec.LastReplay(), f.Msg)
}

// refSrc decodes the leading tape bytes into the parameters of a
// generator-built stream; the remaining bytes become the decision tape.
func refSrc(d *tape, format string) gen.Src {
	s := gen.Src{Fmt: format, Origin: "ref", Seed: 1}
	s.NOps = pickOf(d, 1, 3, 20, 60, 200)
	switch format {
	case "xz":
		s.NBlocks = pickOf(d, 1, 1, 2, 3, 0)
		s.NChunks = d.pick(6)
		s.Check = pickOf[byte](d, 0, 1, 4, 10)
		s.DictCode = pickOf[byte](d, 0, 0, 1, 2, 5)
		s.Sizes = d.pick(4)
		s.ExtraPad = pickOf(d, 0, 0, 1, 3)
		s.Mix = s.NBlocks >= 2 && d.pick(3) == 0
	case "lzma2":
		s.NChunks = d.pick(7)
		s.DictCode = pickOf[byte](d, 0, 0, 1, 2, 5)
	case "lzma":
		s.SizeMode = d.pick(3)
		s.MarkLen = pickOf(d, 0, 0, 3, 10, 18, 273)
		s.DictFld = pickOf[uint32](d, 0, 1, 4095, 4096, 4097, 8192, 65536)
		s.Props = [3]int{d.pick(9), d.pick(5), d.pick(5)}
		if d.pick(16) == 0 {
			s.NOps = 0
		}
	}
	return s
}

func fuzzSeeds(f *testing.F) {
	p := gen.NewPRNG(20260928)
	for _, n := range []int{0, 16, 64, 256, 1024, 4096} {
		b := make([]byte, n)
		p.Fill(b)
		f.Add(b)
		z := make([]byte, n) // all-zero tape: literals of byte 0 and minimal choices
		f.Add(z)
	}
	// inputs kept from earlier campaigns live in testdata/fuzz/<target>/ and
	// are loaded by the engine itself
}

// FuzzC03: generator-built .xz streams, decoded by the library under two
// dictionary capacities, against the constructed plaintext.
func FuzzC03(f *testing.F) {
	fuzzSeeds(f)
	f.Fuzz(func(t *testing.T, data []byte) {
		d := &tape{data}
		c := caseC03{DictCaps: []int{4096, pickOf(d, 4097, 8192, 65536)}}
		c.Src = refSrc(d, "xz")
		c.Src.Tape = d.rest()
		fuzzRun(t, "C03", c, checkC03)
	})
}

// FuzzC07: generator-built classic .lzma streams (all three termination
// modes, any lc/lp/pb) decoded by the library.
func FuzzC07(f *testing.F) {
	fuzzSeeds(f)
	f.Fuzz(func(t *testing.T, data []byte) {
		d := &tape{data}
		c := caseC07{Side: "reader", DictCaps: []int{4096, pickOf(d, 4097, 8192, 65536)}}
		c.Src = refSrc(d, "lzma")
		c.Src.Tape = d.rest()
		fuzzRun(t, "C07", c, checkC07)
	})
}

// FuzzC16: generator-built raw LZMA2 chunk sequences (all seven chunk kinds
// in legal order) decoded by Reader2 against the constructed plaintext.
func FuzzC16(f *testing.F) {
	fuzzSeeds(f)
	f.Fuzz(func(t *testing.T, data []byte) {
		d := &tape{data}
		s := refSrc(d, "lzma2")
		s.Tape = d.rest()
		fuzzRun(t, "C16", caseC16{Kind: "src", Src: &s}, checkC16)
	})
}

// FuzzC05: generator-built streams of the three formats, every proper prefix.
func FuzzC05(f *testing.F) {
	fuzzSeeds(f)
	f.Fuzz(func(t *testing.T, data []byte) {
		d := &tape{data}
		c := caseC05{Cut: -1, Fmt: pickOf(d, "xz", "lzma2", "lzma")}
		s := refSrc(d, c.Fmt)
		if s.NOps > 60 {
			s.NOps = 60
		}
		s.Tape = d.rest()
		c.Srcs = []gen.Src{s}
		fuzzRun(t, "C05", c, checkC05)
	})
}

// FuzzC13: generator-built streams read with a schedule of buffer lengths
// and a fragmenting source, both taken from the tape.
func FuzzC13(f *testing.F) {
	fuzzSeeds(f)
	f.Fuzz(func(t *testing.T, data []byte) {
		d := &tape{data}
		c := caseC13{Fmt: pickOf(d, "xz", "lzma2", "lzma")}
		for i, n := 0, 1+d.pick(5); i < n; i++ {
			c.Reads = append(c.Reads, readLens[d.pick(len(readLens))])
		}
		c.Reads = append(c.Reads, pickOf(d, 1, 7, 4096))
		c.Frag.Kind = pickOf(d, "whole", "one", "lens", "lens")
		if c.Frag.Kind == "lens" {
			for i, n := 0, 1+d.pick(4); i < n; i++ {
				c.Frag.Lens = append(c.Frag.Lens, pickOf(d, 1, 1, 2, 3, 4, 5, 11, 12, 13, 100, 4096))
			}
		}
		c.Frag.EOFWith = d.pick(2) == 1
		s := refSrc(d, c.Fmt)
		s.Tape = d.rest()
		c.Srcs = []gen.Src{s}
		fuzzRun(t, "C13", c, checkC13)
	})
}

var _ = fault.Frag{}
