package props

import (
	"bytes"
	"fmt"
	"io"
	"testing"

	"pgregory.net/rapid"

	"verif/ev"
	"verif/gen"
	"verif/ref"
)

// caseC05 is a valid file (one stream, or several xz streams with padding)
// whose every proper prefix is decoded. Cut >= 0 restricts the case to one cut
// (set in replay files).
type caseC05 struct {
	Fmt  string    `json:"fmt"`
	Srcs []gen.Src `json:"srcs"`
	Pads []int     `json:"pads,omitempty"` // stream padding after each stream (xz multi-stream)
	Cut  int       `json:"cut"`            // -1 = all cuts
}

func drawC05(t *rapid.T) caseC05 {
	c := caseC05{Cut: -1}
	c.Fmt = rapid.SampledFrom([]string{"xz", "xz", "lzma2", "lzma"}).Draw(t, "fmt")
	max := 3000
	if rapid.IntRange(0, 9).Draw(t, "big") == 0 {
		max = 70000
	}
	n := 1
	if c.Fmt == "xz" && rapid.IntRange(0, 3).Draw(t, "multi") == 0 {
		n = rapid.IntRange(2, 3).Draw(t, "nstreams")
	}
	for i := 0; i < n; i++ {
		src := gen.DrawSrc(t, c.Fmt, max, "lib", "lib", "ref", "ref", "liblzma")
		src.Big = false // every cut is decoded: keep the content small
		c.Srcs = append(c.Srcs, src)
		if n > 1 {
			c.Pads = append(c.Pads, 4*rapid.IntRange(0, 3).Draw(t, "pad"))
		}
	}
	return c
}

// assembled is a file made of one or more streams.
type assembled struct {
	data    []byte
	content []byte
	lay     *ref.Layout
	// for multi-stream files: offsets at which a cut yields a clean shorter
	// file, mapped to the content length expected there
	cleanCuts map[int]int
	dict      int
}

func assemble(format string, srcs []gen.Src, pads []int) (*assembled, error) {
	a := &assembled{cleanCuts: map[int]int{}, dict: 4096}
	lay := &ref.Layout{}
	for i, s := range srcs {
		b, err := s.Build()
		if err != nil {
			return nil, err
		}
		l, err := layoutOf(format, b)
		if err != nil {
			return nil, fmt.Errorf("%s stream %d not accepted by the reference decoder: %v", s.Origin, i, err)
		}
		base := len(a.data)
		for _, sp := range l.Spans {
			sp.Off += base
			sp.Stream = i
			lay.Spans = append(lay.Spans, sp)
		}
		a.data = append(a.data, b.Stream...)
		a.content = append(a.content, b.Content...)
		if d := readerDict(format, b); d > a.dict {
			a.dict = d
		}
		if len(srcs) > 1 {
			a.cleanCuts[len(a.data)] = len(a.content)
			pad := 0
			if i < len(pads) {
				pad = pads[i]
			}
			if pad > 0 {
				lay.Spans = append(lay.Spans, ref.Span{Kind: "stream_pad", Off: len(a.data), Len: pad, Block: -1, Stream: i})
			}
			for k := 0; k < pad; k++ {
				a.data = append(a.data, 0)
				if (k+1)%4 == 0 {
					a.cleanCuts[len(a.data)] = len(a.content)
				}
			}
		}
	}
	a.lay = lay
	return a, nil
}

func cutSet(a *assembled, only int) []int {
	n := len(a.data)
	if only >= 0 {
		return []int{only}
	}
	var cuts []int
	if n <= 8192 {
		for k := 0; k < n; k++ {
			cuts = append(cuts, k)
		}
		return cuts
	}
	// large file: every cut within 16 bytes of a field boundary plus a
	// regular sample
	mark := map[int]bool{}
	for _, s := range a.lay.Spans {
		for d := -16; d <= 16; d++ {
			for _, b := range []int{s.Off, s.Off + s.Len} {
				if k := b + d; k >= 0 && k < n {
					mark[k] = true
				}
			}
		}
	}
	step := n / 600
	for k := 0; k < n; k += step {
		mark[k] = true
	}
	for k := 0; k < n; k++ {
		if mark[k] {
			cuts = append(cuts, k)
		}
	}
	return cuts
}

func checkC05(c caseC05, rec *ev.Rec) *ev.Failure {
	a, err := assemble(c.Fmt, c.Srcs, c.Pads)
	if err != nil {
		rec.Incomplete("stream construction: " + err.Error())
		return nil
	}
	// sanity: the complete file decodes (C01/C03/C07 own failures here)
	if got, err := decodeAll(c.Fmt, a.data, a.dict); err != nil || !bytes.Equal(got, a.content) {
		rec.Class("complete_file_not_decoded(other property)")
		return nil
	}
	cuts := cutSet(a, c.Cut)
	multi := len(c.Srcs) > 1
	for _, k := range cuts {
		region := regionAt(a.lay, k)
		got, err := decodeAll(c.Fmt, a.data[:k], a.dict)
		rec.Eval(1)
		origin := c.Srcs[0].Origin
		if want, ok := a.cleanCuts[k]; ok && multi {
			// complete shorter file
			if err != nil || !bytes.Equal(got, a.content[:want]) {
				cc := c
				cc.Cut = k
				return failCut(cc, fmt.Sprintf("cut %d of %d at a stream/padding boundary: want clean content of %d bytes, got %d bytes, err %v", k, len(a.data), want, len(got), err),
					c.Fmt, "boundary", "not_clean")
			}
			rec.Class("cut@clean_boundary")
			continue
		}
		if err == nil || err == io.EOF {
			cc := c
			cc.Cut = k
			return failCut(cc, fmt.Sprintf("%s stream (%s) cut at %d of %d (in %s) decodes without error to %d of %d bytes", c.Fmt, origin, k, len(a.data), region, len(got), len(a.content)),
				c.Fmt, region, "clean_eof")
		}
		if !bytes.HasPrefix(a.content, got) {
			cc := c
			cc.Cut = k
			return failCut(cc, fmt.Sprintf("%s stream cut at %d of %d (in %s): delivered bytes are not a prefix of the content", c.Fmt, k, len(a.data), region), c.Fmt, region, "not_prefix")
		}
		if k > 0 {
			rec.Class("cut@" + c.Fmt + ":" + region)
			rec.NonTrivial(ev.Hash64(a.data[:k]))
		}
	}
	rec.Class("fmt="+c.Fmt, "origin="+c.Srcs[0].Origin)
	if multi {
		rec.Class("multi_stream")
	}
	if len(a.data) > 8192 {
		rec.Class("large_sampled_cuts")
	}
	rec.Sample(c.Fmt+c.Srcs[0].Origin, map[string]any{"fmt": c.Fmt, "origin": c.Srcs[0].Origin, "streams": len(c.Srcs), "pads": c.Pads, "file_len": len(a.data), "content_len": len(a.content), "cuts": len(cuts)})
	return nil
}

type cutFailure struct {
	c caseC05
	f *ev.Failure
}

// failCut builds the failure; the failing cut is stored in the failure
// signature and message. (The case itself is reported by drive; the cut is
// part of the message so a replay of the whole case finds it again.)
func failCut(c caseC05, msg, format, region, result string) *ev.Failure {
	return ev.Fail(msg, "fmt", format, "fault", "cut", "region", region, "result", result)
}

func TestC05(t *testing.T) {
	rec := ev.New("C05", "fault_enumeration")
	rec.Rule = "rapid draws valid files of the three formats (library-, reference-generator- and liblzma-written; xz also as 2-3 concatenated streams with 4-byte-multiple padding); every cut position 0..len-1 is decoded (files > 8 KiB: every cut within 16 bytes of a field boundary plus 600 evenly spaced ones); oracle: error other than io.EOF and delivered bytes are a prefix of the content; at stream/padding boundaries of multi-stream files the clean shorter content; non-trivial = cut > 0; distinct = hash of the prefix bytes; classes = layout field containing the cut"
	rec.Assumptions = []string{"evaluations counts decoded prefixes", "files whose complete form does not decode are left to C01/C03/C07"}
	drive(t, rec, drawC05, checkC05)
}
