package props

import (
	"bytes"
	"fmt"
	"io"
	"testing"

	"github.com/ulikunitz/xz"
	"pgregory.net/rapid"

	"verif/ev"
	"verif/gen"
	"verif/liblz"
	"verif/ref"
)

// caseC03 is a valid foreign .xz stream plus the reader dictionary capacities
// to try.
type caseC03 struct {
	Src      gen.Src `json:"src"`
	DictCaps []int   `json:"dictcaps"`
	// Prior: an earlier reader instance of the same configuration in the same
	// process (see priorDecode) before each decode; "" = none
	Prior   string `json:"prior,omitempty"`
	PriorAt int    `json:"prior_at,omitempty"`
	// Grow > 0 (enumerated cases): instead of Src, a stream of several blocks
	// whose declared dictionaries GROW from block to block (4 KiB, then
	// 4 KiB << Grow, ...), each later block with a match that reaches farther
	// back than every earlier block's dictionary allows
	Grow int `json:"grow,omitempty"`
}

// growingDictStream builds the stream of a Grow case with the reference
// encoder.
func growingDictStream(grow int, check byte) (*gen.Built, error) {
	sp := ref.StreamSpec{Check: check}
	p := gen.NewPRNG(uint64(4000 + grow))
	for blk, code := 0, byte(0); blk < 3 && code <= 12; blk, code = blk+1, code+byte(2*grow) {
		ds, _ := ref.DictSizeForCode(code)
		var ops []ref.Op
		n := 300
		if blk > 0 {
			n = int(ds/2) + 700 // more than the previous block's whole dictionary
		}
		if n > 40000 {
			n = 40000
		}
		for i := 0; i < n; i++ {
			ops = append(ops, ref.Op{Kind: ref.OpLit, Byte: byte(p.Next())})
		}
		ops = append(ops, ref.Op{Kind: ref.OpMatch, Dist: uint32(n - 9), Len: 30}, ref.Op{Kind: ref.OpLit, Byte: 'x'}, ref.Op{Kind: ref.OpMatch, Dist: uint32(n/2 + 100), Len: 11})
		sp.Blocks = append(sp.Blocks, ref.BlockSpec{DictCode: code, WithUSize: blk%2 == 1,
			Chunks: []ref.ChunkSpec{{Kind: ref.CkLRND, Props: ref.Props{LC: 3, LP: 0, PB: 2}, Ops: ops}, {Kind: ref.CkEnd}}})
	}
	stream, plain, err := ref.EncodeXZ(sp)
	if err != nil {
		return nil, err
	}
	return &gen.Built{Stream: stream, Content: plain}, nil
}

func drawC03(t *rapid.T) caseC03 {
	var c caseC03
	max := 40000
	if ev.Thorough() {
		max = 300000
	}
	c.Src = gen.DrawSrc(t, "xz", max, "ref", "ref", "ref", "liblzma", "liblzma", "corpus")
	c.DictCaps = []int{4096, 0}
	if rapid.Bool().Draw(t, "moredict") {
		c.DictCaps = append(c.DictCaps, rapid.SampledFrom([]int{4097, 8191, 8192, 8193, 65536, 1 << 20}).Draw(t, "dictcap"))
	}
	if rapid.IntRange(0, 2).Draw(t, "hasprior") == 0 {
		c.Prior = rapid.SampledFrom([]string{"trunc", "trunc", "flip", "abandon"}).Draw(t, "prior")
		c.PriorAt = rapid.IntRange(0, 999).Draw(t, "priorat")
	}
	return c
}

func statClasses(rec *ev.Rec, st *ref.Stats) (n int) {
	add := func(ok bool, l string) {
		if ok {
			rec.Class(l)
			n++
		}
	}
	add(st.Matches > 0, "op=match")
	add(st.Reps[0] > 0, "op=rep0")
	add(st.Reps[1] > 0, "op=rep1")
	add(st.Reps[2] > 0, "op=rep2")
	add(st.Reps[3] > 0, "op=rep3")
	add(st.ShortReps > 0, "op=shortrep")
	add(st.EdgeMatches > 0, "match_at_window_edge")
	add(st.MatchEqRep > 0, "plain_match_at_rep_distance")
	add(st.MaxLen == 273, "len=273")
	add(st.Len2 > 0, "len=2")
	return n
}

func checkC03(c caseC03, rec *ev.Rec) *ev.Failure {
	b, err := c.Src.Build()
	if c.Grow > 0 {
		c.Src.Origin = "ref"
		b, err = growingDictStream(c.Grow, c.Src.Check)
	}
	if err != nil {
		rec.Incomplete("stream construction failed: " + err.Error())
		return nil
	}
	res, err := ref.DecodeXZ(b.Stream)
	if err != nil || !bytes.Equal(res.Out, b.Content) {
		rec.Incomplete(fmt.Sprintf("reference decoder disagrees with the constructed stream (%s): %v", c.Src.Origin, err))
		return nil
	}
	if liblz.Available {
		got, err := liblz.DecodeXZ(b.Stream, true)
		if err != nil || !bytes.Equal(got, b.Content) {
			rec.Incomplete(fmt.Sprintf("liblzma disagrees with the reference decoder on a %s stream: %v", c.Src.Origin, err))
			return nil
		}
	}
	for _, dc := range c.DictCaps {
		if c.Prior != "" {
			priorDecode("xz", b.Stream, dc, c.Prior, c.PriorAt)
		}
		r, err := xz.ReaderConfig{DictCap: dc}.NewReader(sourceFor(b.Stream))
		if err != nil {
			return ev.Fail(fmt.Sprintf("NewReader(DictCap %d) rejects a valid %s stream: %v", dc, c.Src.Origin, err), "stage", "open", "origin", c.Src.Origin, "err", err.Error())
		}
		got, err := io.ReadAll(r)
		if err != nil {
			return ev.Fail(fmt.Sprintf("reader (DictCap %d) fails on a valid %s stream after %d of %d bytes: %v", dc, c.Src.Origin, len(got), len(b.Content), err),
				"stage", "read", "origin", c.Src.Origin, "err", err.Error())
		}
		if !bytes.Equal(got, b.Content) {
			return ev.Fail(fmt.Sprintf("reader (DictCap %d) decodes a valid %s stream to different bytes (first difference at %d of %d)", dc, c.Src.Origin, firstDiff(got, b.Content), len(b.Content)),
				"stage", "compare", "origin", c.Src.Origin)
		}
	}
	if len(b.Content) <= 2<<20 {
		ways, outs, errs := decodeVia("xz", b.Stream, 4096)
		for i, w := range ways {
			if errs[i] != nil || !bytes.Equal(outs[i], b.Content) {
				return ev.Fail(fmt.Sprintf("decoding a valid %s stream through %s gives (%d bytes, %v), Read gives the %d correct bytes", c.Src.Origin, w, len(outs[i]), errs[i], len(b.Content)),
					"stage", "via", "way", w, "origin", c.Src.Origin)
			}
			rec.Class("read_via=" + w)
		}
	}
	rec.Class("origin=" + c.Src.Origin)
	if c.Prior != "" {
		rec.Class("after_earlier_reader=" + c.Prior)
	}
	var st ref.Stats
	nchunks := 0
	for _, s := range res.Streams {
		rec.Class(fmt.Sprintf("check=%d", s.Check))
		for _, bl := range s.Blocks {
			stc := bl.Stats
			st.Lits += stc.Lits
			st.Matches += stc.Matches
			st.ShortReps += stc.ShortReps
			for i := range st.Reps {
				st.Reps[i] += stc.Reps[i]
			}
			st.EdgeMatches += stc.EdgeMatches
			st.MatchEqRep += stc.MatchEqRep
			if stc.MaxLen > st.MaxLen {
				st.MaxLen = stc.MaxLen
			}
			st.Len2 += stc.Len2
			nchunks += len(bl.Chunks) - 1
			if bl.HasCSize || bl.HasUSize {
				rec.Class("size_fields")
			}
		}
		if len(s.Blocks) == 0 {
			rec.Class("zero_blocks")
		}
	}
	k := statClasses(rec, &st)
	for _, f := range b.Features {
		rec.Class(f)
	}
	if len(b.Content) > 0 && (k > 0 || nchunks >= 2 || len(b.Features) > 0) {
		rec.NonTrivial(ev.Hash64(b.Stream))
	}
	rec.Sample(c.Src.Origin, map[string]any{"src": c.Src, "stream_len": len(b.Stream), "content_len": len(b.Content), "features": b.Features, "dictcaps": c.DictCaps})
	return nil
}

func TestC03(t *testing.T) {
	rec := ev.New("C03", "exploration")
	rec.Rule = "enumerated first: every block header length 12..1024 (size byte 0x02..0xFF), without and with size fields; then valid LZMA2-only .xz streams from (a) a specification-driven generator: operation lists (literal, match, rep0-3, short rep; lengths biased to 2/273/codec boundaries; distances biased to 1, reps, the window edge), all seven chunk kinds in legal order incl. mid-stream state/property/dictionary resets and raw chunks, container layouts (4 check types, size fields, extra header padding, empty and zero-block streams), (b) liblzma with drawn options (presets, mf hc3..bt4, modes, nice_len, flushes, MT encoder), (c) a frozen xz-utils corpus; x ReaderConfig.DictCap in {4096, default, drawn}; in a third of the cases each decode follows an earlier reader instance of the same configuration in the same process that failed on a truncated or changed copy or was abandoned after one Read; oracle = constructed plaintext (= reference decoder = liblzma); non-trivial = non-empty content and at least one match/rep class, >= 2 chunks or a layout feature; distinct = hash of the stream bytes"
	rec.Assumptions = []string{"declared dictionary <= 1 MiB (codes <= 8) in generated streams of the quick tier; the thorough tier adds codes up to 28 (64 MiB)", "a disagreement between reference decoder, liblzma and the constructed plaintext is a harness error (inconclusive), never reported against the library"}
	// every value of the block header size byte (header lengths 12, 16, ...
	// 1024), without and with size fields, before the random cases
	enumerate(t, rec, checkC03, func(try func(caseC03) bool) {
		for k := 0; k <= 253; k++ {
			if k%rec.Shards != rec.Shard {
				continue
			}
			for _, sizes := range []int{0, 3} {
				if sizes != 0 && k > 250 {
					continue
				}
				c := caseC03{Src: gen.Src{Fmt: "xz", Origin: "ref", Seed: uint64(1000 + k), NOps: 6, NChunks: 1, NBlocks: 1 + k%2, Check: []byte{1, 4, 10, 0}[k%4], Sizes: sizes, ExtraPad: k}, DictCaps: []int{4096}}
				rec.Class("header_size_byte_enumerated")
				if !try(c) {
					return
				}
			}
		}
	})
	if t.Failed() {
		return
	}
	// declared dictionaries that grow from block to block
	enumerate(t, rec, checkC03, func(try func(caseC03) bool) {
		i := 0
		for grow := 1; grow <= 3; grow++ {
			for _, check := range []byte{1, 4, 10, 0} {
				i++
				if i%rec.Shards != rec.Shard {
					continue
				}
				rec.Class("dictionary_grows_from_block_to_block")
				if !try(caseC03{Src: gen.Src{Fmt: "xz", Origin: "ref", Check: check}, DictCaps: []int{0, 4096, 1 << 20}, Grow: grow}) {
					return
				}
			}
		}
	})
	if t.Failed() {
		return
	}
	drive(t, rec, drawC03, checkC03)
}
