package props

import (
	"bytes"
	"fmt"
	"io"
	"testing"

	"github.com/ulikunitz/xz/lzma"
	"pgregory.net/rapid"

	"verif/ev"
	"verif/gen"
	"verif/liblz"
	"verif/ref"
)

// caseC16 is a chunk-kind sequence (reader side), a control byte in a context
// (reader side) or a writer history whose output is parsed (writer side).
type caseC16 struct {
	Kind  string   `json:"kind"` // seq | ctrl | writer
	Seq   []int    `json:"seq,omitempty"`
	End   bool     `json:"end,omitempty"`   // append an end chunk
	Ctrl  int      `json:"ctrl,omitempty"`  // control byte value
	After bool     `json:"after,omitempty"` // ctrl: after a legal first chunk
	W     *caseC08 `json:"w,omitempty"`
	Src   *gen.Src `json:"src,omitempty"` // kind src: a generator-built raw LZMA2 stream
}

var c16Props = []ref.Props{{LC: 3, LP: 0, PB: 2}, {LC: 0, LP: 2, PB: 1}, {LC: 4, LP: 0, PB: 0}, {LC: 1, LP: 3, PB: 4}, {LC: 2, LP: 2, PB: 3}}

// c16Chunk builds the spec of chunk j of a given kind and returns the
// plaintext it contributes.
func c16Chunk(kind, j int, sim *ref.LZMA2Sim) (ref.ChunkSpec, []byte) {
	cs := ref.ChunkSpec{Kind: kind}
	start := sim.Total()
	switch kind {
	case ref.CkEnd:
		return cs, nil
	case ref.CkRawD, ref.CkRaw:
		if kind == ref.CkRawD {
			sim.DictReset()
		}
		cs.Raw = []byte{byte('A' + j), byte('0' + j%10)}[:1+j%2]
		sim.Raw(cs.Raw)
	default:
		if kind == ref.CkLRND {
			sim.DictReset()
		}
		if kind >= ref.CkLR {
			sim.StateReset()
		}
		cs.Props = c16Props[j%len(c16Props)]
		ops := []ref.Op{{Kind: ref.OpLit, Byte: byte('a' + j)}}
		if j%3 != 0 {
			ops = append(ops, ref.Op{Kind: ref.OpMatch, Dist: 0, Len: 2})
		}
		if j%3 == 2 {
			ops = append(ops, ref.Op{Kind: ref.OpLit, Byte: byte('z' - j)})
		}
		for _, op := range ops {
			if sim.Apply(op) {
				cs.Ops = append(cs.Ops, op)
			}
		}
	}
	return cs, append([]byte{}, sim.Out()[start:]...)
}

// c16Verdict is the independent three-flag automaton of the chunk rules. It
// returns the index of the offending chunk (-1 if legal) and whether an end
// chunk was reached (its index).
func c16Verdict(seq []int) (bad int, endAt int) {
	needDict, needProps := true, true
	for i, k := range seq {
		switch k {
		case ref.CkEnd:
			return -1, i
		case ref.CkRawD:
			needDict, needProps = false, true
		case ref.CkRaw:
			if needDict {
				return i, -1
			}
		case ref.CkL, ref.CkLR:
			if needDict || needProps {
				return i, -1
			}
		case ref.CkLRN:
			if needDict {
				return i, -1
			}
			needProps = false
		case ref.CkLRND:
			needDict, needProps = false, false
		}
	}
	return -1, -1
}

func seqString(seq []int) string {
	s := ""
	for i, k := range seq {
		if i > 0 {
			s += ","
		}
		s += ref.CkNames[k]
	}
	return s
}

func readLZMA2(stream []byte) ([]byte, error) {
	r, err := lzma.Reader2Config{DictCap: 4096}.NewReader2(bytes.NewReader(stream))
	if err != nil {
		return nil, err
	}
	return io.ReadAll(r)
}

// checkC16Src: a generator-built legal chunk sequence with arbitrary
// operation lists must be decoded by Reader2 to the constructed bytes.
func checkC16Src(c caseC16, rec *ev.Rec) *ev.Failure {
	b, err := c.Src.Build()
	if err != nil {
		rec.Incomplete("stream construction failed: " + err.Error())
		return nil
	}
	res, err := ref.DecodeLZMA2(b.Stream, b.DictSize, true, nil, 0, 0, 0)
	if err != nil || !bytes.Equal(res.Out, b.Content) || res.Consumed != len(b.Stream) {
		rec.Incomplete(fmt.Sprintf("reference decoder disagrees with the constructed LZMA2 stream: %v", err))
		return nil
	}
	if liblz.Available {
		lout, lerr := liblz.DecodeRawLZMA2(b.Stream, b.DictSize)
		if lerr != nil || !bytes.Equal(lout, b.Content) {
			rec.Incomplete(fmt.Sprintf("liblzma disagrees with the reference decoder on a generated LZMA2 stream: %v", lerr))
			return nil
		}
	}
	h := ev.Hash64(b.Stream)
	for _, dc := range []int{readerDict("lzma2", b), 1 << 20} {
		// an earlier Reader2 of the same capacity that failed or was abandoned
		// must not influence this one
		priorDecode("lzma2", b.Stream, dc, []string{"trunc", "flip", "abandon"}[h%3], int(300+h%650))
		got, err := decodeAll("lzma2", b.Stream, dc)
		if err != nil {
			return ev.Fail(fmt.Sprintf("Reader2 (DictCap %d) rejects a legal generated chunk sequence after %d of %d bytes: %v", dc, len(got), len(b.Content), err),
				"side", "reader", "what", "legal_rejected", "err", err.Error())
		}
		if !bytes.Equal(got, b.Content) {
			return ev.Fail(fmt.Sprintf("Reader2 (DictCap %d) decodes a legal generated chunk sequence to different bytes (first difference at %d of %d)", dc, firstDiff(got, b.Content), len(b.Content)),
				"side", "reader", "what", "legal_wrong_bytes")
		}
	}
	if ways, outs, errs := decodeVia("lzma2", b.Stream, readerDict("lzma2", b)); true {
		for i, w := range ways {
			if errs[i] != nil || !bytes.Equal(outs[i], b.Content) {
				return ev.Fail(fmt.Sprintf("decoding a legal generated chunk sequence through %s gives (%d bytes, %v), Read gives the %d correct bytes", w, len(outs[i]), errs[i], len(b.Content)),
					"side", "reader", "what", "via", "way", w)
			}
			rec.Class("read_via=" + w)
		}
	}
	rec.Class("src_stream")
	nck := 0
	for _, ck := range res.Chunks {
		rec.Class("src_chunk=" + ref.CkNames[ck.Kind])
		nck++
	}
	for _, f := range b.Features {
		rec.Class(f)
	}
	if nck >= 3 {
		rec.NonTrivial(ev.Hash64(b.Stream))
	}
	return nil
}

func checkC16(c caseC16, rec *ev.Rec) *ev.Failure {
	switch c.Kind {
	case "src":
		return checkC16Src(c, rec)
	case "seq":
		seq := c.Seq
		if c.End {
			seq = append(append([]int{}, c.Seq...), ref.CkEnd)
		}
		sim := ref.NewSim(4096)
		var specs []ref.ChunkSpec
		var plains [][]byte
		for j, k := range seq {
			cs, pl := c16Chunk(k, j, sim)
			specs = append(specs, cs)
			plains = append(plains, pl)
		}
		stream, _, err := ref.EncodeLZMA2(specs, 4096)
		if err != nil {
			rec.Incomplete("cannot realise sequence " + seqString(seq) + ": " + err.Error())
			return nil
		}
		bad, endAt := c16Verdict(seq)
		upto := len(seq)
		if bad >= 0 {
			upto = bad
		} else if endAt >= 0 {
			upto = endAt
		}
		var want []byte
		for _, p := range plains[:upto] {
			want = append(want, p...)
		}
		// the automaton is itself cross-checked: the strict reference decoder
		// (and, for short sequences, liblzma) must agree with its verdict
		if rres, rerr := ref.DecodeLZMA2(stream, 4096, false, nil, 0, 0, 0); (rerr != nil) != (bad >= 0) || !bytes.Equal(rres.Out, want) {
			rec.Incomplete(fmt.Sprintf("oracle disagreement on [%s]: automaton says offending=%d, reference decoder says %v with %q (want %q)", seqString(seq), bad, rerr, rres.Out, want))
			return nil
		}
		if liblz.Available && len(seq) <= 4 {
			lout, lerr := liblz.DecodeRawLZMA2(stream, 4096)
			legalEnded := bad < 0 && endAt >= 0
			// liblzma stops at the end chunk; trailing chunks after it are trailing bytes for it
			if legalEnded && endAt == len(seq)-1 && (lerr != nil || !bytes.Equal(lout, want)) {
				rec.Incomplete(fmt.Sprintf("oracle disagreement on [%s]: liblzma rejects a sequence the automaton calls legal: %v", seqString(seq), lerr))
				return nil
			}
			if bad >= 0 && lerr == nil {
				rec.Incomplete(fmt.Sprintf("oracle disagreement on [%s]: liblzma accepts a sequence the automaton calls illegal", seqString(seq)))
				return nil
			}
			rec.Class("oracle_cross_checked_by_liblzma")
		}
		got, err := readLZMA2(stream)
		switch {
		case bad >= 0:
			if err == nil || err == io.EOF {
				return ev.Fail(fmt.Sprintf("illegal chunk sequence [%s] (offending chunk #%d %s) accepted: %d bytes, err %v", seqString(seq), bad, ref.CkNames[seq[bad]], len(got), err),
					"side", "reader", "what", "illegal_accepted", "chunk", ref.CkNames[seq[bad]])
			}
			if !bytes.Equal(got, want) {
				return ev.Fail(fmt.Sprintf("illegal chunk sequence [%s]: delivered %q before the error, the chunks before the offending one (#%d) hold %q", seqString(seq), got, bad, want),
					"side", "reader", "what", "illegal_wrong_prefix", "chunk", ref.CkNames[seq[bad]])
			}
			rec.Class("seq_illegal")
		case endAt >= 0:
			if err != nil {
				return ev.Fail(fmt.Sprintf("legal chunk sequence [%s] rejected after %d bytes: %v", seqString(seq), len(got), err), "side", "reader", "what", "legal_rejected", "err", err.Error())
			}
			if !bytes.Equal(got, want) {
				return ev.Fail(fmt.Sprintf("legal chunk sequence [%s] decoded to %q, want %q", seqString(seq), got, want), "side", "reader", "what", "legal_wrong_bytes")
			}
			rec.Class("seq_legal_ended")
		default:
			// legal but the input stops at a chunk boundary without end chunk
			if err == nil || err == io.EOF {
				return ev.Fail(fmt.Sprintf("chunk sequence [%s] without end chunk read as complete", seqString(seq)), "side", "reader", "what", "missing_end_accepted")
			}
			if !bytes.Equal(got, want) {
				return ev.Fail(fmt.Sprintf("chunk sequence [%s] without end chunk: delivered %q, want %q", seqString(seq), got, want), "side", "reader", "what", "legal_wrong_bytes")
			}
			rec.Class("seq_legal_unterminated")
		}
		if len(seq) >= 2 {
			rec.Bulk(1)
		}
		rec.Class(fmt.Sprintf("seq_len=%d", len(c.Seq)))
		if len(c.Seq) == 3 {
			rec.Sample("seq"+fmt.Sprint(bad >= 0), map[string]any{"kind": "seq", "seq": seqString(seq), "offending": bad, "stream_hex": fmt.Sprintf("%x", stream), "want": string(want)})
		}
		return nil
	case "ctrl":
		sim := ref.NewSim(1 << 22)
		var specs []ref.ChunkSpec
		var want []byte
		needDict, needProps := true, true
		if c.After {
			cs, pl := c16Chunk(ref.CkLRND, 1, sim)
			specs = append(specs, cs)
			want = append(want, pl...)
			needDict, needProps = false, false
		}
		stream, _, err := ref.EncodeLZMA2(specs, 1<<22)
		if err != nil {
			rec.Incomplete(err.Error())
			return nil
		}
		ctrl := byte(c.Ctrl)
		legal := true
		switch {
		case ctrl == 0:
			stream = append(stream, 0)
		case ctrl == 1 || ctrl == 2:
			if ctrl == 2 && needDict {
				legal = false
			}
			stream = append(stream, ctrl, 0, 2, 'x', 'y', 'z', 0)
			if legal {
				want = append(want, "xyz"...)
			}
		case ctrl < 0x80:
			legal = false
			stream = append(stream, ctrl, 0, 2, 'x', 'y', 'z', 0)
		default:
			kind := ref.CkL + int(ctrl>>5)&3
			if (kind == ref.CkL || kind == ref.CkLR) && (needDict || needProps) {
				legal = false
			}
			if kind == ref.CkLRN && needDict {
				legal = false
			}
			// the low five bits are the top bits of the uncompressed size
			usize := int(ctrl&0x1F)<<16 + 5
			if kind == ref.CkLRND {
				sim.DictReset()
			}
			if kind >= ref.CkLR {
				sim.StateReset()
			}
			cs := ref.ChunkSpec{Kind: kind, Props: ref.Props{LC: 3, LP: 0, PB: 2}}
			start := sim.Total()
			op := ref.Op{Kind: ref.OpLit, Byte: 'q'}
			sim.Apply(op)
			cs.Ops = append(cs.Ops, op)
			for sim.Total()-start < usize {
				l := usize - (sim.Total() - start)
				if l > 273 {
					l = 273
				}
				if l == 1 {
					op = ref.Op{Kind: ref.OpLit, Byte: 'r'}
				} else {
					op = ref.Op{Kind: ref.OpMatch, Dist: 0, Len: l}
				}
				if !sim.Apply(op) {
					panic("c16: op not applicable")
				}
				cs.Ops = append(cs.Ops, op)
			}
			chunk, _, err := encodeAfter(specs, cs)
			if err != nil {
				rec.Incomplete("cannot realise control byte: " + err.Error())
				return nil
			}
			if chunk[0] != ctrl {
				panic(fmt.Sprintf("c16: realised control byte %#x, want %#x", chunk[0], ctrl))
			}
			stream = append(stream, chunk...)
			stream = append(stream, 0)
			if legal {
				want = append(want, sim.Out()[start:]...)
			}
		}
		got, err := readLZMA2(stream)
		ctx := "first"
		if c.After {
			ctx = "after_LRND"
		}
		if legal {
			if err != nil || !bytes.Equal(got, want) {
				return ev.Fail(fmt.Sprintf("legal control byte %#02x (%s) not decoded: err %v, %d of %d bytes", ctrl, ctx, err, len(got), len(want)), "side", "reader", "what", "ctrl_legal_rejected", "ctx", ctx)
			}
			rec.Class("ctrl_legal")
		} else {
			if err == nil || err == io.EOF {
				return ev.Fail(fmt.Sprintf("illegal control byte %#02x (%s) accepted", ctrl, ctx), "side", "reader", "what", "ctrl_illegal_accepted", "ctx", ctx)
			}
			if !bytes.Equal(got, want) {
				return ev.Fail(fmt.Sprintf("illegal control byte %#02x (%s): delivered %d bytes before the error, want %d", ctrl, ctx, len(got), len(want)), "side", "reader", "what", "ctrl_wrong_prefix", "ctx", ctx)
			}
			rec.Class("ctrl_illegal")
		}
		rec.Bulk(1)
		return nil
	case "writer":
		return checkC16Writer(*c.W, rec)
	}
	return ev.Fail("unknown case kind")
}

// encodeAfter encodes prefix specs followed by cs and returns only the bytes
// of the last chunk.
func encodeAfter(prefix []ref.ChunkSpec, cs ref.ChunkSpec) ([]byte, []byte, error) {
	a, _, err := ref.EncodeLZMA2(prefix, 1<<22)
	if err != nil {
		return nil, nil, err
	}
	b, plain, err := ref.EncodeLZMA2(append(append([]ref.ChunkSpec{}, prefix...), cs), 1<<22)
	if err != nil {
		return nil, nil, err
	}
	return b[len(a):], plain, nil
}

// checkC16Writer parses everything the LZMA2 writer emits during a history.
func checkC16Writer(c caseC08, rec *ev.Rec) *ev.Failure {
	dict := uint32(c.Cfg.EffDict())
	var maxC, maxU, maxRaw, chunks int
	f := runW2(c, func(i int, st stepW2, sink, model []byte, closed, pending bool, before int, err error, n int) *ev.Failure {
		if closed || err != nil || (st.Op != "flush" && st.Op != "close") {
			return nil
		}
		res, derr := ref.DecodeLZMA2(sink, dict, st.Op == "close", nil, 0, 0, 0)
		if derr != nil {
			return ev.Fail(fmt.Sprintf("writer output after step %d (%s) is not a legal chunk sequence: %v", i, st.Op, derr), "side", "writer", "what", "illegal_sequence")
		}
		chunks = 0
		for _, ck := range res.Chunks {
			switch ck.Kind {
			case ref.CkEnd:
			case ref.CkRaw, ref.CkRawD:
				chunks++
				if ck.USize > maxRaw {
					maxRaw = ck.USize
				}
				if ck.USize > 1<<16 {
					return ev.Fail(fmt.Sprintf("uncompressed chunk of %d bytes", ck.USize), "side", "writer", "what", "raw_limit")
				}
			default:
				chunks++
				if ck.CSize > maxC {
					maxC = ck.CSize
				}
				if ck.USize > maxU {
					maxU = ck.USize
				}
				if ck.CSize > 1<<16 || ck.USize > 1<<21 {
					return ev.Fail(fmt.Sprintf("compressed chunk with %d compressed / %d uncompressed bytes", ck.CSize, ck.USize), "side", "writer", "what", "chunk_limit")
				}
			}
		}
		return nil
	})
	if oddOutcome(c.Cfg, f, rec) {
		return nil
	}
	if f != nil {
		return f
	}
	rec.Class("writer_history")
	if maxC > 65000 {
		rec.Class("writer_chunk_at_64KiB_compressed")
	}
	if maxU > 2000000 {
		rec.Class("writer_chunk_at_2MiB_uncompressed")
	}
	if maxRaw > 60000 {
		rec.Class("writer_raw_chunk_near_64KiB")
	}
	if chunks >= 2 {
		rec.NonTrivial(caseHash(c))
	}
	rec.Sample("writer", map[string]any{"kind": "writer", "cfg": c.Cfg, "steps": stepsString(c.Steps), "chunks": chunks, "max_compressed": maxC, "max_uncompressed": maxU, "max_raw": maxRaw})
	return nil
}

func drawC16Writer(t *rapid.T) caseC16 {
	w := drawC08(t)
	// bias to the limits: incompressible >= 64 KiB, compressible >= 2 MiB
	if rapid.IntRange(0, 2).Draw(t, "limit") == 0 {
		big := gen.Seg{Kind: "random", Len: rapid.IntRange(65000, 140000).Draw(t, "rlen"), K: rapid.SampledFrom([]int{0, 0, 0, 230, 232, 234, 236, 238, 240, 242, 246, 252}).Draw(t, "alphabet"), Seed: rapid.Uint64().Draw(t, "rseed")}
		if w.Cfg.Matcher == 0 && rapid.Bool().Draw(t, "compressible") {
			big = gen.Seg{Kind: "zeros", Len: rapid.IntRange(2097152-10, 2097152+70000).Draw(t, "zlen")}
			if !ev.Thorough() && rapid.IntRange(0, 3).Draw(t, "skipbig") > 0 {
				big = gen.Seg{Kind: "text", K: 2, Len: rapid.IntRange(60000, 300000).Draw(t, "tlen"), Seed: 7}
			}
		}
		w.Steps = append([]stepW2{{Op: "write", Seg: &big}}, w.Steps...)
	}
	return caseC16{Kind: "writer", W: &w}
}

func TestC16(t *testing.T) {
	rec := ev.New("C16", "exploration")
	L := 5
	if ev.Thorough() {
		L = 7
	}
	rec.Rule = fmt.Sprintf("reader: ALL sequences over the 7 chunk kinds of length 0..%d, each with and without an appended end chunk, realised as concrete streams (1-3 bytes per chunk, varying lc/lp/pb) and judged by an independent three-flag automaton (need dictionary reset / need properties / ended): legal => exact bytes and clean EOF (or an error when the end chunk is missing), illegal => error after exactly the bytes of the chunks before the offending one; ALL 256 control bytes as first chunk and after a legal first chunk (LZMA control bytes realised with the uncompressed size their low bits announce); chunk header size fields at their boundaries (raw 1..65536, LZMA uncompressed 1..2 MiB, LZMA compressed 7..65536 bytes fitted exactly), each as a legal stream that must decode to the constructed bytes; writer: rapid histories (the C08 generator biased to >= 64 KiB incompressible / >= 2 MiB compressible writes) whose output after every Flush/Close is parsed by the reference decoder: legal sequence, compressed chunk <= 64 KiB / 2 MiB, raw chunk <= 64 KiB; non-trivial = sequence length >= 2 (each sequence distinct by construction), every control byte, writer output with >= 2 chunks", L)
	rec.Extra["max_sequence_length"] = L
	var seqs int64
	enumerate(t, rec, checkC16, func(try func(caseC16) bool) {
		idx := 0
		var walk func(seq []int) bool
		walk = func(seq []int) bool {
			idx++
			if idx%rec.Shards == rec.Shard {
				for _, end := range []bool{false, true} {
					seqs++
					if !try(caseC16{Kind: "seq", Seq: append([]int{}, seq...), End: end}) {
						return false
					}
				}
			}
			if len(seq) == L {
				return true
			}
			for k := 0; k < 7; k++ {
				if !walk(append(seq, k)) {
					return false
				}
			}
			return true
		}
		complete := walk(nil)
		if rec.Shard == 0 {
			for ctrl := 0; ctrl < 256 && complete; ctrl++ {
				for _, after := range []bool{false, true} {
					if !try(caseC16{Kind: "ctrl", Ctrl: ctrl, After: after}) {
						complete = false
					}
				}
			}
		}
		// chunk header size fields at their boundaries, each realised as a
		// legal stream: uncompressed chunk sizes, LZMA chunk uncompressed sizes
		// (long matches) and LZMA chunk compressed sizes (literals fitted to
		// the exact byte count), up to the format maxima 64 KiB / 2 MiB / 64 KiB
		if rec.Shard == 1%rec.Shards {
			var fits []gen.Src
			for _, n := range []int{1, 2, 255, 256, 257, 65535, 65536} {
				fits = append(fits, gen.Src{RawFit: n})
			}
			for _, n := range []int{1, 2, 256, 65535, 65536, 65537, 1 << 20, 1<<20 + 1, 1<<21 - 1, 1 << 21} {
				fits = append(fits, gen.Src{UFit: n})
			}
			for _, n := range []int{7, 255, 256, 257, 4096, 65535, 65536} {
				fits = append(fits, gen.Src{CFit: n})
			}
			for i, f := range fits {
				f.Fmt, f.Origin, f.Seed, f.NOps, f.NChunks = "lzma2", "ref", uint64(1000+i), 3, i%3
				if !complete || !try(caseC16{Kind: "src", Src: &f}) {
					complete = false
				}
			}
		}
		// writer: one Write of 140 000 bytes drawn uniformly from K of the 256
		// byte values, for every K in a band around the point where a compressed
		// chunk gains or loses a fraction of a percent against storing it: the
		// raw / compressed decision and the 64 KiB limit of uncompressed chunks
		if rec.Shard == 2%rec.Shards {
			for k := 222; k <= 250 && complete; k += 2 {
				seg := gen.Seg{Kind: "random", Len: 140000, Seed: uint64(3000 + k), K: k}
				w := caseC08{Cfg: gen.Cfg{DefProps: true, DictCap: 1 << 20}, Steps: []stepW2{{Op: "write", Seg: &seg}, {Op: "close"}}}
				if !try(caseC16{Kind: "writer", W: &w}) {
					complete = false
				}
			}
		}
		rec.Exhaustive = complete
	})
	rec.Extra["sequences_enumerated"] = seqs
	if t.Failed() {
		return
	}
	drive(t, rec, drawC16Writer, checkC16)
}
