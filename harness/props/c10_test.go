package props

import (
	"bytes"
	"encoding/json"
	"fmt"
	"os"
	"os/exec"
	"path/filepath"
	"sort"
	"strings"
	"syscall"
	"testing"

	"pgregory.net/rapid"

	"verif/ev"
	"verif/gen"
)

// caseC10 is one gxz run whose every file-system system call is used as a
// crash point and as a fault point.
type caseC10 struct {
	Op     string   `json:"op"`     // compress | decompress
	Fmt    string   `json:"fmt"`    // xz | lzma
	Flags  []string `json:"flags"`  // subset of -k -f -c
	Name   string   `json:"name"`   // input file name
	Input  string   `json:"input"`  // valid | bitflip | trunc
	Target bool     `json:"target"` // a file already exists under the target name
	// a user file already exists under the name gxz uses for its temporary
	// file (<target>.compress / <target>.decompress): it is the user's data
	// and must survive every run
	TempTaken bool       `json:"temptaken,omitempty"`
	Data      gen.Recipe `json:"data"`
}

func drawC10(t *rapid.T) caseC10 {
	var c caseC10
	c.Op = rapid.SampledFrom([]string{"compress", "decompress", "decompress"}).Draw(t, "op")
	c.Fmt = rapid.SampledFrom([]string{"xz", "xz", "lzma"}).Draw(t, "fmt")
	for _, f := range []string{"-k", "-f", "-c"} {
		if rapid.IntRange(0, 2).Draw(t, "flag"+f) == 0 {
			c.Flags = append(c.Flags, f)
		}
	}
	base := rapid.SampledFrom([]string{"plain", "with space", "data.tar", "dotted.v1.bin"}).Draw(t, "base")
	if c.Op == "compress" {
		c.Name = base
	} else {
		sfx := "." + c.Fmt
		switch rapid.IntRange(0, 5).Draw(t, "sfx") {
		case 0:
			sfx = map[string]string{"xz": ".txz", "lzma": ".tlz"}[c.Fmt]
		case 1:
			sfx = rapid.SampledFrom([]string{"", ".dat"}).Draw(t, "unknown")
		}
		c.Name = base + sfx
		c.Input = rapid.SampledFrom([]string{"valid", "valid", "valid", "bitflip", "trunc"}).Draw(t, "input")
	}
	if c.Input == "" {
		c.Input = "valid"
	}
	c.Target = rapid.IntRange(0, 3).Draw(t, "target") == 0
	c.TempTaken = rapid.IntRange(0, 5).Draw(t, "temptaken") == 0
	classes := []string{"tiny", "small", "medium", "medium", "k64"}
	if rapid.IntRange(0, 5).Draw(t, "big") == 0 {
		classes = []string{"k128"}
	}
	c.Data = gen.DrawRecipe(t, 3, 200000, classes...)
	if rapid.IntRange(0, 4).Draw(t, "beyonddict") == 0 {
		// more content than the dictionary of preset -0 (256 KiB) holds: the
		// decoder's window wraps and hands out data in several rounds before
		// a truncation or corruption is met; both formats, mostly decompression
		c.Data = gen.Recipe{{Kind: "text", K: 26, Len: rapid.IntRange(300000, 700000).Draw(t, "bdlen"), Seed: rapid.Uint64().Draw(t, "bdseed")}}
		c.Fmt = rapid.SampledFrom([]string{"xz", "lzma"}).Draw(t, "bdfmt")
		if rapid.IntRange(0, 3).Draw(t, "bdop") > 0 {
			c.Op = "decompress"
			if !strings.HasSuffix(c.Name, "."+c.Fmt) {
				c.Name = "big." + c.Fmt
			}
			c.Input = rapid.SampledFrom([]string{"valid", "trunc", "trunc", "trunc", "bitflip"}).Draw(t, "bdinput")
			// the cut of a truncated input lies at 3/4 of the file: more than
			// 256 KiB are decoded before it
			if c.Data[0].Len < 400000 {
				c.Data[0].Len += 300000
			}
		} else {
			c.Op, c.Name, c.Input = "compress", "big", "valid"
		}
	}
	return c
}

// samplePoints bounds the cost of scenarios with many system calls: every
// call among the first and last 40 and every step-th one in between.
func samplePoints(calls []ptCall, big bool) map[int]bool {
	keep := map[int]bool{}
	n := len(calls)
	edge, mid := 40, 40
	if big {
		// scenarios with hundreds of kilobytes of content are there for what
		// the undisturbed run and the first / last calls show; each traced run
		// costs tens of milliseconds
		edge, mid = 12, 10
	}
	step := 1
	if n > 2*edge+2*mid {
		step = (n - 2*edge) / mid
	}
	for i, cl := range calls {
		if i < edge || i >= n-edge || (i-edge)%step == 0 {
			keep[cl.K] = true
		}
	}
	return keep
}

type ptCall struct {
	K     int    `json:"k"`
	Name  string `json:"name"`
	FD    int    `json:"fd"`
	Path  string `json:"path"`
	Path2 string `json:"path2"`
	Len   uint64 `json:"len"`
	Mut   bool   `json:"mut"`
	Ret   int64  `json:"ret"`
}

type ptResult struct {
	Calls    []ptCall `json:"calls"`
	Exit     int      `json:"exit"`
	Signaled bool     `json:"signaled"`
	Fired    bool     `json:"fired"`
	Error    string   `json:"error"`
	Foreign  []string `json:"foreign"` // attempted removals / renames of absolute paths outside the directory (blocked by the tracer)
}

type c10Env struct {
	ptrun, gxz, root string
	c                caseC10
	inputBytes       []byte // bytes of the input file
	plain            []byte // plaintext (what a complete decompression yields / the compressor's input)
	targetName       string // final output name ("" when gxz must refuse or -c)
	oldTarget        []byte
	args             []string
	stdout           bool
	keep             bool
	force            bool
	mustFail         bool
	failedUnlink     string // temp file whose removal was made to fail
	tempOwner        string // name of the user's file that sits under gxz's temporary name ("" = none)
	anyExit          bool   // the scenario does not fix whether the run must succeed
}

var tempOwnerData = []byte("a user's file that happens to carry the name of gxz's temporary file\n")

const bystander = "bystander.txt"

var bystanderData = []byte("I am not part of this run.\n")

func (e *c10Env) populate(dir string) error {
	os.RemoveAll(dir)
	if err := os.MkdirAll(dir, 0o755); err != nil {
		return err
	}
	if err := os.WriteFile(filepath.Join(dir, e.c.Name), e.inputBytes, 0o644); err != nil {
		return err
	}
	if err := os.WriteFile(filepath.Join(dir, bystander), bystanderData, 0o644); err != nil {
		return err
	}
	if e.c.Target && e.targetName != "" {
		if err := os.WriteFile(filepath.Join(dir, e.targetName), e.oldTarget, 0o644); err != nil {
			return err
		}
	}
	if e.tempOwner != "" {
		if err := os.WriteFile(filepath.Join(dir, e.tempOwner), tempOwnerData, 0o644); err != nil {
			return err
		}
	}
	return nil
}

func (e *c10Env) run(dir, mode string, k, errno int) (*ptResult, []byte, error) {
	outFile := filepath.Join(e.root, "result.json")
	stdoutFile := filepath.Join(e.root, "stdout.bin")
	os.Remove(outFile)
	os.Remove(stdoutFile)
	a := []string{"-mode", mode, "-k", fmt.Sprint(k), "-errno", fmt.Sprint(errno), "-dir", dir, "-out", outFile, "-stdout-file", stdoutFile}
	if e.stdout {
		a = append(a, "-stdout")
	}
	a = append(a, "--", e.gxz)
	a = append(a, e.args...)
	cmd := exec.Command(e.ptrun, a...)
	var se bytes.Buffer
	cmd.Stderr = &se
	if err := cmd.Run(); err != nil {
		return nil, nil, fmt.Errorf("ptrun: %v: %s", err, se.String())
	}
	b, err := os.ReadFile(outFile)
	if err != nil {
		return nil, nil, err
	}
	var r ptResult
	if err := json.Unmarshal(b, &r); err != nil {
		return nil, nil, err
	}
	if r.Error != "" {
		return nil, nil, fmt.Errorf("ptrun: %s", r.Error)
	}
	so, _ := os.ReadFile(stdoutFile)
	return &r, so, nil
}

// completeOutput tells whether b is a complete output of the run.
func (e *c10Env) completeOutput(b []byte) bool {
	if e.c.Op == "decompress" {
		return bytes.Equal(b, e.plain)
	}
	dec, err := decodeStreams(e.c.Fmt, b)
	return err == nil && bytes.Equal(dec, e.plain)
}

// inspect applies the invariants of C10 to the directory after a run.
func (e *c10Env) inspect(dir string, r *ptResult, stdout []byte, killed bool, what string) *ev.Failure {
	sig := func(kv ...string) []string {
		return append([]string{"op", e.c.Op, "how", strings.Fields(what)[0]}, kv...)
	}
	desc := fmt.Sprintf("gxz %q (input %s, %d bytes; target present=%v), %s, exit %d", e.args, e.c.Input, len(e.inputBytes), e.c.Target, what, r.Exit)
	entries, err := os.ReadDir(dir)
	if err != nil {
		return ev.Fail(desc+": cannot read directory: "+err.Error(), sig("inv", "harness")...)
	}
	files := map[string][]byte{}
	var names []string
	for _, en := range entries {
		b, _ := os.ReadFile(filepath.Join(dir, en.Name()))
		files[en.Name()] = b
		names = append(names, en.Name())
	}
	sort.Strings(names)
	inputIntact := bytes.Equal(files[e.c.Name], e.inputBytes) && files[e.c.Name] != nil
	if _, ok := files[e.c.Name]; ok && len(e.inputBytes) == 0 {
		inputIntact = len(files[e.c.Name]) == 0
	}
	var out []byte
	outExists := false
	if e.targetName != "" {
		out, outExists = files[e.targetName]
	}
	outComplete := outExists && e.completeOutput(out) && e.targetName != e.c.Name
	// gxz may remove its own temporary file and, after success, the input -
	// nothing else, and certainly nothing outside the directory it works in
	if len(r.Foreign) > 0 {
		return ev.Fail(fmt.Sprintf("%s: gxz tried to remove or rename a path that is neither its temporary file nor its input: %v (blocked by the tracer)", desc, r.Foreign), sig("inv", "foreign_path_removed", "path", strings.Fields(r.Foreign[0])[1])...)
	}
	// bystander
	if !bytes.Equal(files[bystander], bystanderData) {
		return ev.Fail(desc+": the bystander file was touched", sig("inv", "bystander")...)
	}
	if e.tempOwner != "" && !bytes.Equal(files[e.tempOwner], tempOwnerData) {
		return ev.Fail(fmt.Sprintf("%s: DATA LOSS: the user's file %q (not created by this run) was removed or overwritten (directory: %v)", desc, e.tempOwner, names), sig("inv", "foreign_temp_destroyed")...)
	}
	// (a) the data exists in at least one complete form
	if !inputIntact && !outComplete {
		return ev.Fail(fmt.Sprintf("%s: DATA LOSS: the input is no longer intact and no complete output exists under the target name %q (directory: %v)", desc, e.targetName, names), sig("inv", "data_loss")...)
	}
	// the target name never holds a partial file
	if outExists && e.targetName != e.c.Name {
		old := e.c.Target && bytes.Equal(out, e.oldTarget)
		if !old && !outComplete {
			return ev.Fail(fmt.Sprintf("%s: partial or wrong file (%d bytes) under the target name %q", desc, len(out), e.targetName), sig("inv", "partial_target")...)
		}
		if e.c.Target && !e.force && !old {
			return ev.Fail(fmt.Sprintf("%s: existing target %q overwritten without -f", desc, e.targetName), sig("inv", "overwrite_without_force")...)
		}
	}
	if e.c.Target && e.targetName != "" && !outExists {
		return ev.Fail(fmt.Sprintf("%s: the pre-existing target %q disappeared", desc, e.targetName), sig("inv", "target_vanished")...)
	}
	if killed {
		return nil
	}
	// (d) no temporary file (unless the injected fault hit the very call that removes it)
	for _, n := range names {
		if (strings.HasSuffix(n, ".compress") || strings.HasSuffix(n, ".decompress")) && n != e.failedUnlink && n != e.tempOwner {
			return ev.Fail(fmt.Sprintf("%s: temporary file %q left behind", desc, n), sig("inv", "temp_left")...)
		}
	}
	for _, n := range names {
		if n != e.c.Name && n != bystander && n != e.targetName && n != e.failedUnlink && n != e.tempOwner {
			return ev.Fail(fmt.Sprintf("%s: unexpected file %q", desc, n), sig("inv", "unexpected_file")...)
		}
	}
	if r.Exit != 0 {
		// (b) failure: input untouched
		if !inputIntact {
			return ev.Fail(desc+": run failed but the input is not intact", sig("inv", "failed_input_touched")...)
		}
		return nil
	}
	// (c) success
	if e.stdout {
		if !e.completeOutput(stdout) {
			return ev.Fail(fmt.Sprintf("%s: exit status 0 but standard output (%d bytes) is not the complete output", desc, len(stdout)), sig("inv", "success_incomplete_stdout")...)
		}
		if !inputIntact {
			return ev.Fail(desc+": -c must keep the input", sig("inv", "stdout_input_removed")...)
		}
		return nil
	}
	if !outComplete {
		return ev.Fail(fmt.Sprintf("%s: exit status 0 but no complete output under %q", desc, e.targetName), sig("inv", "success_without_output")...)
	}
	_, inputThere := files[e.c.Name]
	if e.keep && !inputIntact {
		return ev.Fail(desc+": -k given but the input is gone", sig("inv", "keep_ignored")...)
	}
	if !e.keep && inputThere {
		return ev.Fail(desc+": exit status 0 without -k/-c but the input was not removed", sig("inv", "input_not_removed")...)
	}
	return nil
}

func errnosFor(c ptCall) []int {
	switch c.Name {
	case "write", "pwrite":
		return []int{int(syscall.ENOSPC), int(syscall.EIO)}
	case "read", "pread", "close", "fsync", "fdatasync", "fstat":
		return []int{int(syscall.EIO)}
	case "openat", "open":
		return []int{int(syscall.EACCES), int(syscall.ENOSPC)}
	case "renameat", "renameat2", "rename":
		return []int{int(syscall.EIO), int(syscall.EXDEV)}
	case "unlinkat", "unlink":
		return []int{int(syscall.EACCES), int(syscall.EIO)}
	}
	return []int{int(syscall.EIO)}
}

func checkC10(c caseC10, rec *ev.Rec) *ev.Failure {
	e := &c10Env{ptrun: os.Getenv("VERIF_PTRUN"), gxz: os.Getenv("VERIF_GXZ"), c: c}
	if e.ptrun == "" || e.gxz == "" {
		rec.Incomplete("VERIF_PTRUN / VERIF_GXZ not set (the driver builds them)")
		return nil
	}
	syscall.Umask(0o022)
	root, err := os.MkdirTemp(os.Getenv("VERIF_WORKDIR"), "c10-")
	if err != nil {
		rec.Incomplete("mkdtemp: " + err.Error())
		return nil
	}
	defer os.RemoveAll(root)
	e.root = root
	dir := filepath.Join(root, "d")
	e.plain = c.Data.Expand()
	e.oldTarget = []byte("previous content of the target\n")
	for _, f := range c.Flags {
		switch f {
		case "-k":
			e.keep = true
		case "-f":
			e.force = true
		case "-c":
			e.stdout = true
		}
	}
	// build the input file
	if c.Op == "compress" {
		e.inputBytes = e.plain
		if !e.stdout {
			e.targetName = c.Name + "." + c.Fmt
		}
		e.args = append(append([]string{"-0"}, c.Flags...), "-F", c.Fmt, "--", c.Name)
	} else {
		comp, _, code, err := runTool(root, e.gxz, []string{"-c", "-0", "-F", c.Fmt}, e.plain)
		if err != nil || code != 0 {
			rec.Incomplete("cannot prepare compressed input")
			return nil
		}
		switch c.Input {
		case "bitflip":
			comp = append([]byte{}, comp...)
			comp[len(comp)/2] ^= 0x08
			e.mustFail = true
		case "trunc":
			cut := len(comp) - 1 - len(comp)/4
			if cut < 20 {
				cut = len(comp) - 1
			}
			comp = comp[:cut]
			e.mustFail = true
		}
		e.inputBytes = comp
		t, ok := targetFor(c.Name, true, c.Fmt)
		if !e.stdout {
			if ok {
				e.targetName = t
			} else {
				e.mustFail = true // no known suffix
			}
		}
		e.args = append(append([]string{"-d", "-0"}, c.Flags...), "--", c.Name)
	}
	if c.Target && e.targetName != "" && !e.force {
		e.mustFail = true
	}
	if c.TempTaken && e.targetName != "" {
		e.tempOwner = e.targetName + map[string]string{"compress": ".compress", "decompress": ".decompress"}[c.Op]
		// whether gxz refuses or picks another temporary name is its choice;
		// the invariants on the directory are what the property states
		e.anyExit = true
	}
	// baseline: traced listing run
	if err := e.populate(dir); err != nil {
		rec.Incomplete("populate: " + err.Error())
		return nil
	}
	base, so, err := e.run(dir, "list", -1, 0)
	if err != nil {
		rec.Incomplete("ptrace runner unavailable: " + err.Error())
		return nil
	}
	rec.Eval(1)
	if f := e.inspect(dir, base, so, false, "undisturbed run"); f != nil {
		return f
	}
	if e.mustFail && base.Exit == 0 && !e.anyExit {
		return ev.Fail(fmt.Sprintf("gxz %q (input %s, target present=%v): exit status 0, expected a failure", e.args, c.Input, c.Target), "op", c.Op, "how", "undisturbed", "inv", "must_fail")
	}
	if !e.mustFail && base.Exit != 0 && !e.anyExit {
		return ev.Fail(fmt.Sprintf("gxz %q on valid input fails with exit status %d", e.args, base.Exit), "op", c.Op, "how", "undisturbed", "inv", "must_succeed")
	}
	// close calls on descriptors that were opened for writing (the output)
	outFDs := map[int]bool{}
	{
		open := map[int]bool{}
		for _, cl := range base.Calls {
			switch {
			case (cl.Name == "openat" || cl.Name == "open") && cl.Mut && cl.Ret >= 0:
				open[int(cl.Ret)] = true
			case cl.Name == "close" && open[cl.FD]:
				outFDs[cl.K] = true
				delete(open, cl.FD)
			}
		}
	}
	tmpCreated := -1
	createdByRun := map[string]bool{}
	for _, cl := range base.Calls {
		if cl.Mut && (cl.Name == "openat" || cl.Name == "open") {
			createdByRun[cl.Path] = true
			if tmpCreated < 0 {
				tmpCreated = cl.K
			}
		}
	}
	keep := samplePoints(base.Calls, len(e.plain) > 250000)
	if len(keep) < len(base.Calls) {
		rec.Class("points_sampled(>160 calls)")
	}
	// every mutating system call as a kill point
	for _, cl := range base.Calls {
		if !cl.Mut || !keep[cl.K] {
			continue
		}
		if err := e.populate(dir); err != nil {
			rec.Incomplete("populate: " + err.Error())
			return nil
		}
		r, so, err := e.run(dir, "kill", cl.K, 0)
		if err != nil {
			rec.Incomplete("ptrun: " + err.Error())
			return nil
		}
		rec.Eval(1)
		if !r.Fired {
			rec.Class("kill_point_not_reached")
			continue
		}
		if f := e.inspect(dir, r, so, true, fmt.Sprintf("killed before system call #%d %s(%s%s)", cl.K, cl.Name, cl.Path, cl.Path2)); f != nil {
			return f
		}
		phase := "before_tmp"
		if tmpCreated >= 0 && cl.K >= tmpCreated {
			phase = "after_tmp"
			rec.NonTrivial(ev.Hash64(caseHash(c), "kill", cl.K))
		}
		rec.Class("kill@" + cl.Name + ":" + phase)
	}
	// every mutating system call as the point where SIGINT (Ctrl-C) arrives:
	// gxz's handler removes the temporary file and exits; the main goroutine
	// keeps running until then, so the outcome may vary between runs - the
	// invariants must hold in every one
	for _, cl := range base.Calls {
		if !cl.Mut || !keep[cl.K] {
			continue
		}
		if err := e.populate(dir); err != nil {
			rec.Incomplete("populate: " + err.Error())
			return nil
		}
		r, so, err := e.run(dir, "signal", cl.K, 0)
		if err != nil {
			rec.Incomplete("ptrun: " + err.Error())
			return nil
		}
		rec.Eval(1)
		if !r.Fired {
			continue
		}
		// a run that still exits 0 completed before the handler ran: full
		// success invariants; otherwise the invariants of an interrupted run
		if f := e.inspect(dir, r, so, r.Exit != 0, fmt.Sprintf("SIGINT sent before system call #%d %s(%s%s)", cl.K, cl.Name, cl.Path, cl.Path2)); f != nil {
			return f
		}
		if tmpCreated >= 0 && cl.K >= tmpCreated {
			rec.NonTrivial(ev.Hash64(caseHash(c), "sigint", cl.K))
		}
		rec.Class(fmt.Sprintf("sigint@%s:exit=%d", cl.Name, r.Exit))
	}
	// every listed system call as a fault point
	for _, cl := range base.Calls {
		if !keep[cl.K] {
			continue
		}
		for _, en := range errnosFor(ptCall(cl)) {
			if err := e.populate(dir); err != nil {
				rec.Incomplete("populate: " + err.Error())
				return nil
			}
			e.failedUnlink = ""
			if (cl.Name == "unlinkat" || cl.Name == "unlink") && createdByRun[cl.Path] && cl.Path != e.targetName && cl.Path != c.Name {
				// the injected fault hits the removal of a file the run created
				// itself (its temporary file, whatever it is called): that file
				// necessarily stays
				e.failedUnlink = cl.Path
			}
			r, so, err := e.run(dir, "fail", cl.K, en)
			if err != nil {
				rec.Incomplete("ptrun: " + err.Error())
				return nil
			}
			rec.Eval(1)
			if !r.Fired {
				continue
			}
			what := fmt.Sprintf("fault errno %d injected into system call #%d %s(%s%s fd %d)", en, cl.K, cl.Name, cl.Path, cl.Path2, cl.FD)
			if f := e.inspect(dir, r, so, false, what); f != nil {
				return f
			}
			// a failing write, close of the output, rename or remove is a failed run
			decisive := false
			switch cl.Name {
			case "write", "pwrite", "renameat", "renameat2", "rename", "unlinkat", "unlink":
				// (a failing read is not in this list: gxz may succeed after a
				// transient read error - bufio retries - and the output is then
				// complete, which invariant (c) checks)
				decisive = true
			case "close":
				decisive = outFDs[cl.K]
			}
			if decisive && r.Exit == 0 {
				return ev.Fail(fmt.Sprintf("gxz %q: %s, yet the exit status is 0", e.args, what), "op", c.Op, "how", "fault", "inv", "failed_call_exit_0", "call", cl.Name)
			}
			phase := "before_tmp"
			if tmpCreated >= 0 && cl.K >= tmpCreated {
				phase = "after_tmp"
				rec.NonTrivial(ev.Hash64(caseHash(c), "fail", cl.K, en))
			}
			rec.Class("fault@" + cl.Name + ":" + phase)
		}
	}
	if e.tempOwner != "" {
		rec.Class("temp_name_taken_by_user_file")
	}
	rec.Class("op="+c.Op, "fmt="+c.Fmt, "input="+c.Input, "flags="+strings.Join(c.Flags, ""), fmt.Sprintf("must_fail=%v", e.mustFail))
	rec.Sample(c.Op+c.Input, map[string]any{"args": e.args, "input": c.Input, "target_present": c.Target, "input_len": len(e.inputBytes), "syscalls": len(base.Calls), "exit": base.Exit})
	return nil
}

func TestC10(t *testing.T) {
	rec := ev.New("C10", "fault_enumeration")
	rec.Rule = "rapid draws a gxz scenario ({compress, decompress} x {xz, lzma} x subsets of {-k,-f,-c} x names with known / tar / unknown suffix x {valid, bit-flipped, truncated} input x target absent / present x a user file under the temporary name present / absent x content incl. > 64 KiB, plus a bystander file); the unmodified binary built from the tree runs under a ptrace tracer that numbers every system call touching the directory; per scenario: one undisturbed run, EVERY mutating call as a kill point (killed before it executes) and EVERY listed call as a fault point (scenarios with more than 160 calls: the first and last 40 and 40 evenly spaced ones; scenarios with more than 250 KB of content: 12 + 12 + 10) (ENOSPC/EIO/EACCES/EXDEV as fits), EVERY mutating call as the arrival point of SIGINT (handled by gxz: temporary file removed, exit 7), each on a fresh copy; the tracer blocks and reports any removal / rename of a path outside the directory; oracle on the directory afterwards: gxz removed nothing but its temporary file and (after success) the input; input intact or complete output under a different final name; target name never holds a partial file; pre-existing target kept without -f; bystander and a user file under the temporary name untouched; not killed: no temporary file, exit != 0 => input intact, exit 0 => complete output (file or stdout) and input removed iff neither -k nor -c; corrupt / truncated / unknown-suffix / existing-target scenarios must fail; evaluations = traced runs; non-trivial = kill / fault at or after creation of the temporary file; distinct = hash(scenario, point)"
	rec.Assumptions = []string{"a single system call is atomic; a kill inside a write equals a kill after a shorter write to the temporary file", "process kill, not power loss (gxz does not fsync)", "if ptrace is not permitted the check is inconclusive"}
	drive(t, rec, drawC10, checkC10)
}
