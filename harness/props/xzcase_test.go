package props

import (
	"bytes"
	"fmt"
	"io"
	"strings"

	"github.com/ulikunitz/xz"
	"pgregory.net/rapid"

	"verif/ev"
	"verif/gen"
	"verif/liblz"
	"verif/ref"
)

// caseXZ is a write history for the xz writer: configuration, data recipe,
// partition into Write calls and the calls issued after the first Close.
type caseXZ struct {
	Cfg  gen.Cfg       `json:"cfg"`
	Data gen.Recipe    `json:"data"`
	Part gen.Partition `json:"part"`
	Tail []string      `json:"tail,omitempty"` // close | write0 | write
	// Prior > 0: an earlier writer of the same configuration in the same
	// process took Prior bytes and was closed (odd) or abandoned (even)
	Prior int `json:"prior,omitempty"`
	// Via: how the pieces are handed over ("" Write; copy, string, bytes: see viaWrite)
	Via string `json:"via,omitempty"`
}

func matcherName(m int) string {
	if m == 1 {
		return "BT"
	}
	return "HT4"
}

// clampForBT bounds run-like segments when the BinaryTree matcher is used: it
// degenerates to a list on runs (64 KiB of one byte take seconds).
func clampForBT(r gen.Recipe, limit int) gen.Recipe {
	for i := range r {
		s := &r[i]
		// run-like or periodic data (a copy at ANY distance is periodic, a
		// counter has period 256, a two-letter text has little entropy)
		runlike := s.Kind == "zeros" || s.Kind == "run" || s.Kind == "copyback" || s.Kind == "counter" || (s.Kind == "text" && s.K <= 2)
		// interleaved copies with short literal runs are highly repetitive
		// (measured: 900 KB with runs of <= 3 literals take the BinaryTree
		// matcher 170 s, with runs of <= 40 literals 1 s)
		if s.Kind == "mix" && s.K > 0 && s.K < 40 {
			runlike = true
		}
		if runlike && s.Len > limit {
			s.Len = limit
		}
		if s.Kind == "mix" && s.Len > 300000 {
			s.Len = 300000
		}
	}
	return r
}

// drawXZCase draws a case inside the work budget stated in DESIGN.md 3.3.
func drawXZCase(t *rapid.T) caseXZ {
	var c caseXZ
	c.Cfg = gen.DrawXZ(t)
	if rapid.IntRange(0, 40).Draw(t, "defaultdict") == 0 {
		c.Cfg.DictCap = 0 // library default 8 MiB
		c.Cfg.Matcher = 0
	}
	// budget: blocks*(DictCap) <= 64 MiB, blocks <= 600
	dict := int64(c.Cfg.EffDict())
	maxBlocks := (64 << 20) / dict
	if c.Cfg.Matcher == 1 {
		maxBlocks = (8 << 20) / dict
	}
	if maxBlocks > 600 {
		maxBlocks = 600
	}
	if maxBlocks < 1 {
		maxBlocks = 1
	}
	maxTotal := int64(4 << 20)
	if bs := c.Cfg.EffBlock(); bs < maxTotal/maxBlocks+1 {
		maxTotal = bs * maxBlocks
	}
	classes := []string{"tiny", "small", "small", "small", "small", "medium", "medium", "k64"}
	if ev.Thorough() {
		classes = append(classes, "k64", "k128", "m1")
		if rapid.IntRange(0, 60).Draw(t, "huge") == 0 {
			classes = []string{"m2", "small"}
		}
	}
	c.Data = gen.DrawRecipe(t, 5, int(maxTotal), classes...)
	// shapes that need several chunk kinds inside one block: incompressible
	// runs long enough for two or more uncompressed chunks, followed (or
	// interleaved) by compressible data
	forceSingle := false
	if maxTotal >= 400000 {
		rnd := func(lo, hi int) gen.Seg {
			return gen.Seg{Kind: "random", Len: rapid.IntRange(lo, hi).Draw(t, "rawlen"), K: rapid.SampledFrom([]int{0, 0, 0, 230, 232, 234, 236, 238, 240, 242, 246, 252}).Draw(t, "alphabet"), Seed: rapid.Uint64().Draw(t, "rawseed")}
		}
		txt := func() gen.Seg {
			return gen.Seg{Kind: "text", K: 4, Len: rapid.IntRange(300, 30000).Draw(t, "txtlen"), Seed: rapid.Uint64().Draw(t, "txtseed")}
		}
		switch rapid.IntRange(0, 19).Draw(t, "shape") {
		case 5, 6:
			// hundreds of kilobytes of interleaved literal runs and copies: a dozen
			// chunk limits, each met by whatever operation happens to be next
			if c.Cfg.Matcher == 0 || rapid.IntRange(0, 3).Draw(t, "btmix") == 0 {
				c.Data = gen.Recipe{{Kind: "mix", Len: rapid.IntRange(150000, 900000).Draw(t, "mixlen"), Seed: rapid.Uint64().Draw(t, "mixseed"),
					K: rapid.SampledFrom([]int{3, 40, 200}).Draw(t, "mixk"), Dist: rapid.SampledFrom([]int{0, 4096, 65536}).Draw(t, "mixdist")}}
			}
		case 4:
			// a chunk closed by the 64 KiB compressed limit (bytes left pending in
			// the look-ahead) and then more than 2 MiB of highly compressible data,
			// in one Write call half of the time
			if c.Cfg.Matcher == 0 && maxTotal >= 2400000 {
				c.Data = gen.Recipe{rnd(66000, 140000), {Kind: "run", B: rapid.Byte().Draw(t, "runbyte"), Len: rapid.IntRange(2097152-70000, 2097152+150000).Draw(t, "runlen")}, txt()}
				forceSingle = rapid.Bool().Draw(t, "single")
			}
		case 0:
			c.Data = gen.Recipe{rnd(131072, 200000), txt()}
		case 1:
			c.Data = gen.Recipe{txt(), rnd(66000, 70000), txt(), rnd(66000, 70000), txt()}
		case 2:
			c.Data = gen.Recipe{rnd(1, 3000), txt(), rnd(1, 3000), txt()}
		case 3:
			// highly compressible data beyond 1 MiB / 2 MiB: compressed chunks whose
			// uncompressed size needs the high bits of the control byte
			if c.Cfg.Matcher == 0 {
				c.Data = gen.Recipe{txt(), {Kind: "run", B: rapid.Byte().Draw(t, "runbyte"), Len: rapid.IntRange(1100000, 2300000).Draw(t, "runlen")}, txt()}
			}
		}
	}
	if ev.Thorough() && c.Cfg.DictCap == 0 && rapid.IntRange(0, 3).Draw(t, "wrapdefault") == 0 {
		// more data than the default 8 MiB dictionary plus look-ahead holds:
		// the encoder's ring buffer wraps with the default configuration
		c.Cfg.BlockSize = 0
		c.Data = gen.Recipe{
			{Kind: "text", K: 26, Len: rapid.IntRange(3<<20, 4<<20).Draw(t, "w1"), Seed: rapid.Uint64().Draw(t, "ws1")},
			{Kind: "random", Len: rapid.IntRange(100000, 300000).Draw(t, "w2"), Seed: rapid.Uint64().Draw(t, "ws2")},
			{Kind: "copyback", Len: rapid.IntRange(5<<20, 6<<20).Draw(t, "w3"), Dist: rapid.IntRange(1<<20, 3<<20).Draw(t, "wd")},
			{Kind: "text", K: 4, Len: rapid.IntRange(1000, 100000).Draw(t, "w4"), Seed: rapid.Uint64().Draw(t, "ws4")},
		}
	}
	if c.Cfg.EffDict() <= 1<<20 && rapid.IntRange(0, 19).Draw(t, "edge") == 0 {
		// the only repeat lies at distance DictCap-3..DictCap+3
		c.Data = gen.EdgeRecipe(t, c.Cfg.EffDict())
		if c.Cfg.BlockSize != 0 && c.Cfg.BlockSize < int64(c.Data.Len()) {
			c.Cfg.BlockSize = 0
		}
	}
	if c.Cfg.Matcher == 0 && c.Cfg.EffDict() >= 65536 && rapid.IntRange(0, 24).Draw(t, "repchain") == 0 {
		c.Data = gen.RepChainRecipe(t)
		if c.Cfg.BlockSize != 0 && c.Cfg.BlockSize < int64(c.Data.Len()) {
			c.Cfg.BlockSize = 0
		}
	}
	if rapid.IntRange(0, 39).Draw(t, "manyblocks") == 0 {
		// thousands of tiny blocks: an index of more than 4 KiB (2 bytes per
		// record) and more than 2^7 / 2^14 records; cheap with the smallest
		// dictionary
		c.Cfg.DictCap, c.Cfg.Matcher = 4096, 0
		c.Cfg.BlockSize = int64(rapid.IntRange(1, 3).Draw(t, "mbsize"))
		nb := rapid.SampledFrom([]int{127, 128, 129, 1000, 2100, 2800, 3600}).Draw(t, "mbcount")
		c.Data = gen.Recipe{{Kind: "text", K: 26, Len: nb*int(c.Cfg.BlockSize) - rapid.IntRange(0, int(c.Cfg.BlockSize)-1).Draw(t, "mbrem"), Seed: rapid.Uint64().Draw(t, "mbseed")}}
		forceSingle = rapid.Bool().Draw(t, "mbsingle")
	}
	if rapid.IntRange(0, 14).Draw(t, "blockstartsraw") == 0 {
		// every block starts with more than 64 KiB of incompressible data (its
		// first chunk has to be stored) and goes on with compressible data:
		// whatever a block inherits from its predecessor shows here
		bs := rapid.SampledFrom([]int{100000, 131072, 200000}).Draw(t, "bsrsize")
		c.Cfg.BlockSize = int64(bs)
		c.Data = nil
		for b, nb := 0, rapid.IntRange(2, 4).Draw(t, "bsrblocks"); b < nb; b++ {
			rl := rapid.IntRange(66000, 90000).Draw(t, "bsrraw")
			c.Data = append(c.Data, gen.Seg{Kind: "random", Len: rl, Seed: rapid.Uint64().Draw(t, "bsrseed")},
				gen.Seg{Kind: "text", K: 4, Len: bs - rl, Seed: rapid.Uint64().Draw(t, "bsrtseed")})
		}
		forceSingle = rapid.Bool().Draw(t, "bsrsingle")
	}
	if c.Cfg.Matcher == 1 {
		c.Data = clampForBT(c.Data, 12000)
	}
	n := c.Data.Len()
	marks := []int{65536, 2 << 20}
	if bs := c.Cfg.EffBlock(); bs < int64(n) {
		marks = append([]int{int(bs), int(2 * bs)}, marks...)
	}
	c.Part = gen.DrawPartition(t, n, marks...)
	if forceSingle {
		c.Part = gen.Partition{Kind: "single"}
	}
	c.Tail = rapid.SliceOfN(rapid.SampledFrom([]string{"close", "write0", "write"}), 0, 3).Draw(t, "tail")
	if rapid.IntRange(0, 3).Draw(t, "hasprior") == 0 {
		c.Prior = rapid.IntRange(1, 20000).Draw(t, "prior")
	}
	c.Via = rapid.SampledFrom(viaKinds).Draw(t, "via")
	if rapid.IntRange(0, 11).Draw(t, "oddcfg") == 0 {
		gen.DrawOdd(t, &c.Cfg, "xz")
		if c.Data.Len() > 200000 {
			c.Data = c.Data[:1]
			c.Part = gen.Partition{Kind: "single"}
		}
	}
	return c
}

// writeResult is what running the write history produced.
type writeResult struct {
	data []byte
	out  []byte
}

// runXZWrite executes the write history and checks the call-level contract
// of C01 (every Write returns (len(p), nil), Close returns nil, calls after
// Close fail and emit nothing).
func runXZWrite(c caseXZ) (*writeResult, *ev.Failure) {
	cfg := c.Cfg.XZ()
	m := matcherName(c.Cfg.Matcher)
	if err := cfg.Verify(); err != nil {
		if c.Cfg.Odd != "" {
			return nil, rejectedCfg
		}
		panic("generator produced a configuration Verify rejects: " + err.Error())
	}
	data := c.Data.Expand()
	if c.Prior > 0 {
		// an earlier instance must not influence this one
		if pw, err := c.Cfg.XZ().NewWriter(io.Discard); err == nil {
			// the earlier writer works within the same budget as the judged one:
			// at most 16 blocks (with BlockSize 1 and the default 8 MiB dictionary
			// every byte costs a new encoder)
			n := c.Prior
			if bs := c.Cfg.BlockSize; bs > 0 && int64(n) > 16*bs {
				n = int(16 * bs)
			}
			junk := gen.Recipe{{Kind: "text", K: 7, Len: n, Seed: uint64(c.Prior)}}.Expand()
			pw.Write(junk)
			if c.Prior%2 == 1 {
				pw.Close()
			}
		}
	}
	var sink bytes.Buffer
	w, err := c.Cfg.XZ().NewWriter(&sink)
	if err != nil && c.Cfg.Odd != "" {
		return nil, rejectedCfg
	}
	if err != nil {
		return nil, ev.Fail("NewWriter: "+err.Error(), "stage", "newwriter", "matcher", m)
	}
	pos := 0
	for i, l := range c.Part.Split(len(data)) {
		n, err := viaWrite(w, data[pos:pos+l], c.Via)
		if err != nil || n != l {
			return nil, ev.Fail(fmt.Sprintf("Write #%d (via %q) of %d bytes at offset %d returned (%d, %v)", i, c.Via, l, pos, n, err),
				"stage", "write", "matcher", m, "err", fmt.Sprint(err))
		}
		pos += l
	}
	if err := w.Close(); err != nil {
		return nil, ev.Fail("Close: "+err.Error(), "stage", "close", "matcher", m, "err", err.Error())
	}
	before := sink.Len()
	for i, op := range c.Tail {
		var err error
		switch op {
		case "close":
			err = w.Close()
		case "write0":
			_, err = w.Write(nil)
		case "write":
			_, err = w.Write([]byte("more"))
		}
		if err == nil {
			return nil, ev.Fail(fmt.Sprintf("tail call #%d %s after Close returned nil", i, op), "stage", "tail", "op", op, "result", "nil")
		}
		if sink.Len() != before {
			return nil, ev.Fail(fmt.Sprintf("tail call #%d %s after Close emitted %d bytes", i, op, sink.Len()-before), "stage", "tail", "op", op, "result", "emitted")
		}
	}
	return &writeResult{data: data, out: sink.Bytes()}, nil
}

func classifyXZ(c caseXZ, rec *ev.Rec, res *ref.XZResult, n int) (nontrivial bool) {
	rec.Class("matcher="+matcherName(c.Cfg.Matcher), "partition="+c.Part.Kind, fmt.Sprintf("check=%d", c.Cfg.EffCheck()), "write_via="+c.Via,
		"xz.Writer_optional_interfaces="+optionalIfaces((*xz.Writer)(nil)))
	lc, lp, pb := c.Cfg.EffProps()
	if lc+lp == 4 {
		rec.Class("lc+lp=4")
	}
	if pb == 0 || pb == 4 {
		rec.Class(fmt.Sprintf("pb=%d", pb))
	}
	if c.Cfg.EffDict() <= 4097 {
		rec.Class("dict<=4097")
	}
	if c.Cfg.EffBuf() <= 274 {
		rec.Class("buf<=274")
	}
	if c.Cfg.BlockSize == 1 {
		rec.Class("blocksize=1")
	}
	if n > c.Cfg.EffDict() {
		rec.Class("n>dict")
	}
	if n > 65536 {
		rec.Class("n>64KiB")
	}
	if n > 2<<20 {
		rec.Class("n>2MiB")
	}
	if n == 0 {
		rec.Class("n=0")
	}
	if len(c.Data) > 0 && (c.Data[0].Kind == "zeros" || (c.Data[0].Kind == "run" && c.Data[0].B == 0)) {
		rec.Class("zero_prefix")
	}
	for _, s := range c.Data {
		if s.Kind == "random" && s.Len > 1000 {
			rec.Class("has_incompressible")
			break
		}
	}
	for _, op := range c.Tail {
		rec.Class("tail=" + op)
	}
	if res == nil || len(res.Streams) == 0 {
		return false
	}
	st := res.Streams[0]
	chunks, matches, raw := 0, 0, 0
	for _, b := range st.Blocks {
		for _, ck := range b.Chunks {
			if ck.Kind == ref.CkEnd {
				continue
			}
			chunks++
			if ck.Kind == ref.CkRaw || ck.Kind == ref.CkRawD {
				raw++
			}
		}
		matches += b.Stats.Matches + b.Stats.Reps[0] + b.Stats.Reps[1] + b.Stats.Reps[2] + b.Stats.Reps[3]
	}
	if len(st.Blocks) >= 2 {
		rec.Class("blocks>=2")
	}
	if chunks >= 2 {
		rec.Class("chunks>=2")
	}
	if raw > 0 {
		rec.Class("raw_chunk")
	}
	if matches > 0 {
		rec.Class("has_match")
	}
	return n >= 1 && (len(st.Blocks) >= 2 || chunks >= 2 || matches > 0)
}

func caseHash(c any) uint64 { return ev.Hash64(fmt.Sprintf("%+v", c)) }

// rejectedCfg is what the run functions return when the library refuses a
// configuration drawn by gen.DrawOdd.
var rejectedCfg = &ev.Failure{Msg: "configuration rejected"}

// oddOutcome records what the library said to an odd configuration.
func oddOutcome(cfg gen.Cfg, f *ev.Failure, rec *ev.Rec) (rejected bool) {
	if cfg.Odd == "" {
		return false
	}
	dim := cfg.Odd
	if i := strings.IndexByte(dim, '='); i > 0 {
		dim = dim[:i]
	}
	if f == rejectedCfg {
		rec.Class("odd_config_rejected", "odd_config_rejected="+dim)
		return true
	}
	rec.Class("odd_config_accepted", "odd_config_accepted="+dim)
	return false
}

// checkC01 is the round-trip oracle.
func checkC01(c caseXZ, rec *ev.Rec) *ev.Failure {
	wr, f := runXZWrite(c)
	if oddOutcome(c.Cfg, f, rec) {
		return nil
	}
	if f != nil {
		return f
	}
	m := matcherName(c.Cfg.Matcher)
	res, _ := ref.DecodeXZ(wr.out) // classification only; C02 judges validity
	blocks := 1
	if res != nil && len(res.Streams) > 0 {
		blocks = len(res.Streams[0].Blocks)
	}
	rcfgs := []xz.ReaderConfig{{DictCap: 4096}}
	if blocks <= 16 {
		rcfgs = append(rcfgs, xz.ReaderConfig{})
	}
	for _, rc := range rcfgs {
		r, err := rc.NewReader(bytes.NewReader(wr.out))
		if err != nil {
			return ev.Fail("NewReader on writer output: "+err.Error(), "stage", "read", "matcher", m, "err", err.Error())
		}
		got, err := io.ReadAll(r)
		if err != nil {
			return ev.Fail(fmt.Sprintf("reading writer output fails after %d of %d bytes: %v", len(got), len(wr.data), err),
				"stage", "read", "matcher", m, "err", err.Error())
		}
		if !bytes.Equal(got, wr.data) {
			return ev.Fail(fmt.Sprintf("round trip differs: got %d bytes, want %d, first difference at %d", len(got), len(wr.data), firstDiff(got, wr.data)),
				"stage", "compare", "matcher", m)
		}
		var one [1]byte
		if n, err := r.Read(one[:]); n != 0 || err != io.EOF {
			return ev.Fail(fmt.Sprintf("Read after end returned (%d, %v)", n, err), "stage", "eof", "matcher", m)
		}
	}
	if classifyXZ(c, rec, res, len(wr.data)) {
		rec.NonTrivial(caseHash(c))
	}
	rec.Sample(m+c.Part.Kind, map[string]any{"cfg": c.Cfg, "data": c.Data.String(), "writes": len(c.Part.Split(len(wr.data))), "tail": c.Tail, "out_len": len(wr.out)})
	return nil
}

func firstDiff(a, b []byte) int {
	n := len(a)
	if len(b) < n {
		n = len(b)
	}
	for i := 0; i < n; i++ {
		if a[i] != b[i] {
			return i
		}
	}
	return n
}

// checkC02 judges the emitted stream with the independent reference decoder
// and liblzma and evaluates the validity predicates on the parsed layout.
func checkC02(c caseXZ, rec *ev.Rec) *ev.Failure {
	c.Tail = nil
	wr, f := runXZWrite(c)
	if oddOutcome(c.Cfg, f, rec) {
		return nil
	}
	if f != nil {
		// the call-level failure belongs to C01; C02 judges emitted streams
		rec.Class("write_failed(C01)")
		return nil
	}
	m := matcherName(c.Cfg.Matcher)
	res, err := ref.DecodeXZ(wr.out)
	if err != nil {
		return ev.Fail("reference decoder rejects the emitted stream: "+err.Error(), "stage", "ref", "matcher", m, "err", err.Error())
	}
	if !bytes.Equal(res.Out, wr.data) {
		return ev.Fail(fmt.Sprintf("reference decoder recovers different bytes (first difference at %d)", firstDiff(res.Out, wr.data)), "stage", "ref_compare", "matcher", m)
	}
	if liblz.Available {
		got, err := liblz.DecodeXZ(wr.out, false)
		if err != nil {
			return ev.Fail("liblzma rejects the emitted stream (reference accepts it): "+err.Error(), "stage", "liblzma", "matcher", m)
		}
		if !bytes.Equal(got, wr.data) {
			return ev.Fail("liblzma recovers different bytes", "stage", "liblzma_compare", "matcher", m)
		}
	}
	st := res.Streams[0]
	bs := c.Cfg.EffBlock()
	for i, b := range st.Blocks {
		if b.Stats.MaxDist > int64(b.DictSize) {
			return ev.Fail("match distance beyond the declared dictionary", "stage", "predicate", "what", "maxdist")
		}
		if i < len(st.Blocks)-1 && int64(b.USize) != bs {
			return ev.Fail(fmt.Sprintf("block %d holds %d bytes, block size is %d", i, b.USize, bs), "stage", "predicate", "what", "blocksize")
		}
		for _, ck := range b.Chunks {
			switch ck.Kind {
			case ref.CkRaw, ref.CkRawD:
				if ck.USize > 1<<16 {
					return ev.Fail("raw chunk above 64 KiB", "stage", "predicate", "what", "rawlimit")
				}
			case ref.CkL, ref.CkLR, ref.CkLRN, ref.CkLRND:
				if ck.CSize > 1<<16 || ck.USize > 1<<21 {
					return ev.Fail("LZMA chunk above limits", "stage", "predicate", "what", "chunklimit")
				}
			}
		}
	}
	// the reference parser already verified: header/footer flags equal,
	// backward size == index size, records == measured sizes, all paddings
	// zero and minimal, check values, chunk order legality.
	nontrivial := false
	for _, b := range st.Blocks {
		if b.Stats.Lits > 0 && b.Stats.Matches+b.Stats.Reps[0]+b.Stats.Reps[1]+b.Stats.Reps[2]+b.Stats.Reps[3] > 0 {
			nontrivial = true
		}
		if b.Stats.Reps[1]+b.Stats.Reps[2]+b.Stats.Reps[3] > 0 {
			rec.Class("uses_rep1-3")
		}
		if b.Stats.ShortReps > 0 {
			rec.Class("uses_shortrep")
		}
	}
	classifyXZ(c, rec, res, len(wr.data))
	if nontrivial {
		rec.NonTrivial(caseHash(c))
	}
	maxDist := int64(0)
	for _, b := range st.Blocks {
		if b.Stats.MaxDist > maxDist {
			maxDist = b.Stats.MaxDist
		}
	}
	rec.Sample(m+fmt.Sprint(len(st.Blocks) > 1), map[string]any{"cfg": c.Cfg, "data": c.Data.String(), "blocks": len(st.Blocks), "out_len": len(wr.out), "max_dist": maxDist})
	return nil
}
