package props

import (
	"bytes"
	"fmt"
	"io"
	"testing"

	"github.com/ulikunitz/xz/lzma"
	"pgregory.net/rapid"

	"verif/ev"
	"verif/gen"
	"verif/liblz"
	"verif/ref"
)

// stepW2 is one call on the LZMA2 writer.
type stepW2 struct {
	Op   string     `json:"op"` // write | write0 | flush | close
	Seg  *gen.Seg   `json:"seg,omitempty"`
	More gen.Recipe `json:"more,omitempty"` // further segments handed over in the same Write call
}

// recipe returns the payload of a write step.
func (s stepW2) recipe() gen.Recipe { return append(gen.Recipe{*s.Seg}, s.More...) }

// payload expands the payload of a write step.
func (s stepW2) payload() []byte { return s.recipe().Expand() }

// caseC08 is a call history on an LZMA2 writer.
type caseC08 struct {
	Cfg   gen.Cfg  `json:"cfg"`
	Steps []stepW2 `json:"steps"`
	Via   string   `json:"via,omitempty"` // how write steps hand their payload over, see viaWrite
}

func drawC08(t *rapid.T) caseC08 {
	var c caseC08
	gen.DrawProps(t, &c.Cfg, true)
	gen.DrawCoder(t, &c.Cfg)
	n := rapid.IntRange(1, 12).Draw(t, "nsteps")
	total := 0
	closed := false
	classes := []string{"tiny", "small", "small", "medium", "medium", "k64"}
	if ev.Thorough() {
		classes = append(classes, "k64", "k128", "m1")
		if rapid.IntRange(0, 40).Draw(t, "huge") == 0 {
			classes = []string{"m2", "m1"}
		}
	}
	for i := 0; i < n; i++ {
		op := rapid.SampledFrom([]string{"write", "write", "write", "flush", "flush", "write0", "close"}).Draw(t, "op")
		if op == "close" && !closed && i < n-1 && rapid.IntRange(0, 2).Draw(t, "deferclose") > 0 {
			op = "flush"
		}
		st := stepW2{Op: op}
		if op == "write" {
			l := gen.LenClass(t, "len", classes...)
			if total+l > 5<<20 {
				l = 100
			}
			kinds := gen.AllKinds
			s := gen.SegOf(t, l, 1, kinds)
			if s.Kind == "copyback" {
				s.Kind = "text"
				s.Seed = uint64(s.Dist)
				s.K = 4
			}
			st.Seg = &s
			total += l
		}
		if op == "close" {
			closed = true
		}
		c.Steps = append(c.Steps, st)
	}
	if !closed {
		c.Steps = append(c.Steps, stepW2{Op: "close"})
	}
	if c.Cfg.EffDict() <= 1<<20 && rapid.IntRange(0, 14).Draw(t, "edge") == 0 {
		// the only repeat lies at distance DictCap-3..DictCap+3; one Write or
		// a Flush before the repeat
		r := gen.EdgeRecipe(t, c.Cfg.EffDict())
		first := r[0]
		if rapid.Bool().Draw(t, "edgesplit") {
			second := r[1]
			c.Steps = []stepW2{{Op: "write", Seg: &first}, {Op: "flush"}, {Op: "write", Seg: &second, More: r[2:]}, {Op: "close"}}
		} else {
			c.Steps = []stepW2{{Op: "write", Seg: &first, More: r[1:]}, {Op: "close"}}
		}
	}
	if c.Cfg.Matcher == 0 && rapid.IntRange(0, 11).Draw(t, "exact2mib") == 0 {
		// highly redundant data whose length since the last chunk boundary is
		// exactly (or one off) a multiple of the 2 MiB uncompressed chunk
		// limit, then a Flush: the chunk is closed by Write itself and nothing
		// is pending when Flush runs
		n := rapid.SampledFrom([]int{1<<21 - 1, 1 << 21, 1 << 21, 1<<21 + 1, 2 << 21}).Draw(t, "e2len")
		run := gen.Seg{Kind: "run", B: rapid.Byte().Draw(t, "e2byte"), Len: n}
		c.Steps = nil
		if rapid.Bool().Draw(t, "e2split") {
			half := run
			half.Len = n / 2
			rest := run
			rest.Len = n - n/2
			c.Steps = append(c.Steps, stepW2{Op: "write", Seg: &half}, stepW2{Op: "write", Seg: &rest})
		} else {
			c.Steps = append(c.Steps, stepW2{Op: "write", Seg: &run})
		}
		c.Steps = append(c.Steps, stepW2{Op: "flush"})
		if rapid.Bool().Draw(t, "e2more") {
			tail := gen.Seg{Kind: "text", K: 4, Len: rapid.IntRange(1, 300).Draw(t, "e2tail"), Seed: 21}
			c.Steps = append(c.Steps, stepW2{Op: "write", Seg: &tail}, stepW2{Op: "flush"})
		}
		c.Steps = append(c.Steps, stepW2{Op: "close"})
	}
	if rapid.IntRange(0, 11).Draw(t, "mixwrite") == 0 {
		// a few hundred kilobytes of interleaved literal runs and copies in one
		// or two writes: several chunk limits inside one call
		mk := func() *gen.Seg {
			return &gen.Seg{Kind: "mix", Len: rapid.IntRange(100000, 400000).Draw(t, "mixlen"), Seed: rapid.Uint64().Draw(t, "mixseed"),
				K: rapid.SampledFrom([]int{3, 40, 200}).Draw(t, "mixk"), Dist: rapid.SampledFrom([]int{0, 4096, 65536}).Draw(t, "mixdist")}
		}
		c.Steps = []stepW2{{Op: "write", Seg: mk()}}
		if rapid.Bool().Draw(t, "mixtwo") {
			c.Steps = append(c.Steps, stepW2{Op: "flush"}, stepW2{Op: "write", Seg: mk()})
		}
		c.Steps = append(c.Steps, stepW2{Op: "close"})
	}
	if c.Cfg.Matcher == 0 && c.Cfg.EffDict() >= 65536 && rapid.IntRange(0, 11).Draw(t, "repchain") == 0 {
		r := gen.RepChainRecipe(t)
		first := r[0]
		c.Steps = []stepW2{{Op: "write", Seg: &first, More: r[1:]}, {Op: "close"}}
	}
	if c.Cfg.Matcher == 0 && rapid.IntRange(0, 9).Draw(t, "bigwrite") == 0 {
		// ONE Write call that crosses both chunk limits: poorly compressible
		// data (a chunk closed by the 64 KiB compressed limit, leaving bytes
		// pending in the look-ahead) followed by more than 2 MiB of highly
		// compressible data (the 2 MiB uncompressed limit of the next chunk)
		rnd := func() gen.Seg {
			return gen.Seg{Kind: "random", Len: rapid.IntRange(66000, 140000).Draw(t, "bwrnd"), K: rapid.SampledFrom([]int{0, 0, 0, 230, 232, 234, 236, 238, 240, 242, 246, 252}).Draw(t, "alphabet"), Seed: rapid.Uint64().Draw(t, "bwseed")}
		}
		run := func() gen.Seg {
			return gen.Seg{Kind: "run", B: rapid.Byte().Draw(t, "bwbyte"), Len: rapid.IntRange(2097152-70000, 2097152+150000).Draw(t, "bwrun")}
		}
		var segs gen.Recipe
		switch rapid.IntRange(0, 2).Draw(t, "bwshape") {
		case 0:
			segs = gen.Recipe{rnd(), run()}
		case 1:
			segs = gen.Recipe{run(), rnd(), run()}
		case 2:
			segs = gen.Recipe{{Kind: "text", K: 26, Len: rapid.IntRange(150000, 400000).Draw(t, "bwtxt"), Seed: rapid.Uint64().Draw(t, "bwtseed")}, run()}
		}
		var steps []stepW2
		if rapid.Bool().Draw(t, "bwprefix") {
			pre := gen.Seg{Kind: "text", K: 4, Len: rapid.IntRange(1, 5000).Draw(t, "bwpre"), Seed: 11}
			steps = append(steps, stepW2{Op: "write", Seg: &pre})
			if rapid.Bool().Draw(t, "bwpreflush") {
				steps = append(steps, stepW2{Op: "flush"})
			}
		}
		first := segs[0]
		steps = append(steps, stepW2{Op: "write", Seg: &first, More: segs[1:]})
		if rapid.Bool().Draw(t, "bwflush") {
			steps = append(steps, stepW2{Op: "flush"})
		}
		c.Steps = append(steps, stepW2{Op: "close"})
	}
	if c.Cfg.Matcher == 1 {
		for i := range c.Steps {
			if s := c.Steps[i].Seg; s != nil {
				r := clampForBT(c.Steps[i].recipe(), 12000)
				*s = r[0]
				c.Steps[i].More = r[1:]
			}
		}
	}
	c.Via = rapid.SampledFrom(viaKinds).Draw(t, "via")
	if rapid.IntRange(0, 11).Draw(t, "oddcfg") == 0 {
		gen.DrawOdd(t, &c.Cfg, "lzma2")
	}
	return c
}

// w2Observer lets C08 and C16 look at the sink after every call.
type w2Observer func(step int, st stepW2, sink []byte, model []byte, closed bool, pendingBefore bool, sinkBefore int, err error, n int) *ev.Failure

func runW2(c caseC08, obs w2Observer) *ev.Failure {
	cfg := c.Cfg.W2()
	if err := cfg.Verify(); err != nil {
		if c.Cfg.Odd != "" {
			return rejectedCfg
		}
		panic("generator produced a configuration Verify rejects: " + err.Error())
	}
	if h := caseHash(c); h%4 == 1 {
		// an earlier writer of the same configuration, closed or abandoned
		priorWrite(func(s io.Writer) (io.WriteCloser, error) { return c.Cfg.W2().NewWriter2(s) }, int(1+h%9000))
	}
	var sink bytes.Buffer
	w, err := c.Cfg.W2().NewWriter2(&sink)
	if err != nil && c.Cfg.Odd != "" {
		return rejectedCfg
	}
	if err != nil {
		return ev.Fail("NewWriter2: "+err.Error(), "stage", "newwriter")
	}
	var model []byte
	closed := false
	pending := false
	for i, st := range c.Steps {
		before := sink.Len()
		var err error
		n := 0
		var p []byte
		switch st.Op {
		case "write":
			p = st.payload()
			n, err = viaWrite(w, p, c.Via)
		case "write0":
			n, err = w.Write(nil)
		case "flush":
			err = w.Flush()
		case "close":
			err = w.Close()
		}
		if !closed && st.Op == "write" {
			model = append(model, p[:n]...)
		}
		if f := obs(i, st, sink.Bytes(), model, closed, pending, before, err, n); f != nil {
			return f
		}
		if !closed {
			switch st.Op {
			case "write":
				if len(p) > 0 {
					pending = true
				}
			case "flush":
				pending = false
			case "close":
				closed = true
			}
		}
	}
	return nil
}

func checkC08(c caseC08, rec *ev.Rec) *ev.Failure {
	m := matcherName(c.Cfg.Matcher)
	dict := uint32(c.Cfg.EffDict())
	flushesAfterData, chunksSeen, rawSeen, big := 0, 0, 0, false
	f := runW2(c, func(i int, st stepW2, sink, model []byte, closed, pending bool, before int, err error, n int) *ev.Failure {
		sig := []string{"op", st.Op, "matcher", m}
		if closed {
			if err == nil {
				return ev.Fail(fmt.Sprintf("step %d: %s after Close returned nil", i, st.Op), append(sig, "stage", "after_close", "result", "nil")...)
			}
			if len(sink) != before {
				return ev.Fail(fmt.Sprintf("step %d: %s after Close emitted %d bytes", i, st.Op, len(sink)-before), append(sig, "stage", "after_close", "result", "emitted")...)
			}
			rec.Class("call_after_close=" + st.Op)
			return nil
		}
		if err != nil {
			return ev.Fail(fmt.Sprintf("step %d: %s failed: %v", i, st.Op, err), append(sig, "stage", "call", "err", err.Error())...)
		}
		switch st.Op {
		case "write":
			if want := st.recipe().Len(); n != want {
				return ev.Fail(fmt.Sprintf("step %d: Write of %d bytes returned n=%d", i, want, n), append(sig, "stage", "call", "result", "short_write")...)
			}
		case "flush":
			if !pending && len(sink) != before {
				return ev.Fail(fmt.Sprintf("step %d: Flush with nothing pending emitted %d bytes", i, len(sink)-before), append(sig, "stage", "flush", "result", "emitted_nothing_pending")...)
			}
			res, err := ref.DecodeLZMA2(sink, dict, false, nil, 0, 0, 0)
			if err != nil || res.Consumed != len(sink) || res.Ended {
				return ev.Fail(fmt.Sprintf("step %d: after Flush the %d emitted bytes are not a complete chunk sequence without end marker: %v (consumed %d, ended %v)", i, len(sink), err, res.Consumed, res.Ended),
					append(sig, "stage", "flush", "result", "prefix_invalid")...)
			}
			if !bytes.Equal(res.Out, model) {
				return ev.Fail(fmt.Sprintf("step %d: after Flush the emitted bytes decode to %d bytes, %d were written (first difference at %d)", i, len(res.Out), len(model), firstDiff(res.Out, model)),
					append(sig, "stage", "flush", "result", "prefix_wrong")...)
			}
			r, err := lzma.Reader2Config{DictCap: int(dict)}.NewReader2(bytes.NewReader(append(append([]byte{}, sink...), 0)))
			var got []byte
			if err == nil {
				got, err = io.ReadAll(r)
			}
			if err != nil || !bytes.Equal(got, model) {
				return ev.Fail(fmt.Sprintf("step %d: Reader2 does not decode the flushed prefix plus end chunk to the written data: %v", i, err), append(sig, "stage", "flush", "result", "reader2_prefix")...)
			}
			if pending {
				flushesAfterData++
			} else {
				rec.Class("flush_nothing_pending")
			}
		case "close":
			res, err := ref.DecodeLZMA2(sink, dict, true, nil, 0, 0, 0)
			if err != nil || res.Consumed != len(sink) {
				return ev.Fail(fmt.Sprintf("after Close the reference decoder rejects the output: %v", err), append(sig, "stage", "close", "result", "ref_rejects")...)
			}
			if !bytes.Equal(res.Out, model) {
				return ev.Fail(fmt.Sprintf("after Close the output decodes (reference) to %d bytes, %d were written (first difference at %d)", len(res.Out), len(model), firstDiff(res.Out, model)),
					append(sig, "stage", "close", "result", "ref_wrong")...)
			}
			r, err := lzma.Reader2Config{DictCap: int(dict)}.NewReader2(bytes.NewReader(sink))
			var got []byte
			if err == nil {
				got, err = io.ReadAll(r)
			}
			if err != nil || !bytes.Equal(got, model) {
				return ev.Fail(fmt.Sprintf("after Close Reader2 does not decode the output to the written data: %v (%d of %d bytes)", err, len(got), len(model)), append(sig, "stage", "close", "result", "reader2")...)
			}
			if liblz.Available {
				got, err := liblz.DecodeRawLZMA2(sink, dict)
				if err != nil || !bytes.Equal(got, model) {
					return ev.Fail(fmt.Sprintf("after Close liblzma does not decode the output to the written data: %v", err), append(sig, "stage", "close", "result", "liblzma")...)
				}
			}
			for _, ck := range res.Chunks {
				if ck.Kind != ref.CkEnd {
					chunksSeen++
				}
				if ck.Kind == ref.CkRaw || ck.Kind == ref.CkRawD {
					rawSeen++
				}
				if ck.CSize > 60000 || ck.USize > 1<<20 {
					big = true
				}
			}
		}
		return nil
	})
	if oddOutcome(c.Cfg, f, rec) {
		return nil
	}
	if f != nil {
		return f
	}
	rec.Class("matcher="+m, "write_via="+c.Via, "lzma.Writer2_optional_interfaces="+optionalIfaces((*lzma.Writer2)(nil)))
	if rawSeen > 0 {
		rec.Class("raw_chunk")
	}
	if big {
		rec.Class("chunk_near_limit")
	}
	if c.Cfg.EffDict() <= 4097 {
		rec.Class("dict<=4097")
	}
	if flushesAfterData >= 1 && chunksSeen >= 2 {
		rec.NonTrivial(caseHash(c))
	}
	rec.Sample(m+fmt.Sprint(flushesAfterData > 0), map[string]any{"cfg": c.Cfg, "steps": stepsString(c.Steps), "chunks": chunksSeen, "raw_chunks": rawSeen})
	return nil
}

func stepsString(s []stepW2) string {
	r := ""
	for i, st := range s {
		if i > 0 {
			r += " "
		}
		r += st.Op
		if st.Seg != nil {
			r += "(" + st.recipe().String() + ")"
		}
	}
	return r
}

// limitScan enumerates histories that place each kind of operation at every
// fill level of an LZMA2 chunk that is about to reach its 64 KiB compressed
// limit: prefix (a seed block, 1 MiB of zeros, compressible text), R random
// bytes, then the operation under test. The input offset L0 at which the
// unmodified-looking encoder closes the chunk is measured with the library
// itself (the chunk layout of prefix + random data, parsed by the reference
// decoder); R runs over L0-56 .. L0+8, so the operation is attempted with
// every remaining space from about 0 to 64 bytes.
// propsSweep proposes every lc/lp pair in 0..9 x 0..5 (pb cycling through
// 0..4) with a small input: the library says which it accepts (for xz and
// LZMA2 the format allows lc+lp <= 4 only), and the whole oracle applies to
// every accepted one.
func propsSweep(rec *ev.Rec, try func(gen.Cfg, gen.Recipe) bool) bool {
	i := 0
	for lc := 0; lc <= 9; lc++ {
		for lp := 0; lp <= 5; lp++ {
			i++
			if i%rec.Shards != rec.Shard {
				continue
			}
			cfg := gen.Cfg{LC: lc, LP: lp, PB: (lc + 2*lp) % 5, DictCap: 4096, Odd: fmt.Sprintf("props=%d/%d/%d", lc, lp, (lc+2*lp)%5)}
			rec.Class("props_sweep")
			if !try(cfg, gen.Recipe{{Kind: "text", K: 5, Len: 700, Seed: uint64(i)}}) {
				return false
			}
		}
	}
	return true
}

func limitScan(rec *ev.Rec, try func(caseC08) bool) bool {
	kinds := []string{"far", "rep", "near", "lit"}
	for ki, kind := range kinds {
		cfg := gen.Cfg{DefProps: true, DictCap: 1 << 16, Matcher: 0}
		prefix := gen.Recipe{{Kind: "random", Len: 400, Seed: 77}, {Kind: "text", K: 2, Len: 3000, Seed: 78}}
		if kind == "far" {
			cfg.DictCap = 0 // default 8 MiB: a distance beyond 1 MiB needs it
			prefix = gen.Recipe{{Kind: "random", Len: 400, Seed: 77}, {Kind: "zeros", Len: 1<<20 + 1000}, {Kind: "text", K: 2, Len: 3000, Seed: 78}}
		}
		plen := prefix.Len()
		// measure where the chunk that holds the start of the random region ends
		var buf bytes.Buffer
		w, err := cfg.W2().NewWriter2(&buf)
		if err != nil {
			rec.Incomplete("limit scan: " + err.Error())
			return false
		}
		probe := append(append(gen.Recipe{}, prefix...), gen.Seg{Kind: "random", Len: 70000, Seed: 79})
		if _, err := w.Write(probe.Expand()); err != nil {
			rec.Class("limit_scan_probe_fails(reported by the generated cases)")
			continue
		}
		if err := w.Close(); err != nil {
			rec.Class("limit_scan_probe_fails(reported by the generated cases)")
			continue
		}
		res, err := ref.DecodeLZMA2(buf.Bytes(), uint32(cfg.EffDict()), true, nil, 0, 0, 0)
		if err != nil {
			rec.Class("limit_scan_probe_invalid(reported by the generated cases)")
			continue
		}
		end, l0 := 0, -1
		for _, ck := range res.Chunks {
			end += ck.USize
			if end > plen && ck.Kind >= ref.CkL {
				l0 = end - plen
				break
			}
		}
		if l0 < 1000 {
			rec.Incomplete(fmt.Sprintf("limit scan (%s): no compressed chunk ends inside the random region", kind))
			return false
		}
		for r := l0 - 56; r <= l0+8; r++ {
			if (r+ki)%rec.Shards != rec.Shard {
				continue
			}
			segs := append(append(gen.Recipe{}, prefix...), gen.Seg{Kind: "random", Len: r, Seed: 79})
			switch kind {
			case "far":
				segs = append(segs, gen.Seg{Kind: "copyback", Dist: plen + r, Len: 40})
			case "rep":
				for i := 0; i < 12; i++ {
					segs = append(segs, gen.Seg{Kind: "copyback", Dist: 500 + 700*(i%4), Len: 273})
				}
			case "near":
				segs = append(segs, gen.Seg{Kind: "copyback", Dist: 1000, Len: 18})
			case "lit":
				segs = append(segs, gen.Seg{Kind: "random", Len: 64, Seed: 80})
			}
			segs = append(segs, gen.Seg{Kind: "text", K: 4, Len: 200, Seed: 81})
			first := segs[0]
			c := caseC08{Cfg: cfg, Steps: []stepW2{{Op: "write", Seg: &first, More: segs[1:]}, {Op: "close"}}}
			rec.Class("limit_scan=" + kind)
			if !try(c) {
				return false
			}
		}
	}
	return true
}

func TestC08(t *testing.T) {
	rec := ev.New("C08", "exploration")
	rec.Rule = "stateful generation: rapid draws a Writer2Config passing Verify and a history of up to 12 calls over {Write(segment), Write(nil), Flush, Close} followed by calls after Close; model = concatenation of accepted bytes; invariant after every step: calls succeed before Close; after a Flush the sink is a legal chunk sequence without end marker that the reference decoder decodes to exactly the model and Reader2 decodes (with 0x00 appended) to the model; a Flush with nothing pending leaves the sink unchanged; after Close reference decoder, Reader2 and liblzma decode the sink to the model; every later call fails and emits nothing; in addition a limit scan: four kinds of operation (match beyond 1 MiB, rep chain, near match, literals) placed at every fill level 0..64 bytes below the 64 KiB compressed limit of a chunk (position measured with the library, 65 offsets per kind); non-trivial = >= 1 Flush after data and >= 2 chunks; distinct = hash of the history"
	rec.Assumptions = []string{"histories <= 12 steps and <= 5 MiB", "BinaryTree: run-like segments <= 12000 bytes"}
	enumerate(t, rec, checkC08, func(try func(caseC08) bool) {
		if !limitScan(rec, try) {
			return
		}
		if !propsSweep(rec, func(cfg gen.Cfg, data gen.Recipe) bool {
			seg := data[0]
			return try(caseC08{Cfg: cfg, Steps: []stepW2{{Op: "write", Seg: &seg}, {Op: "flush"}, {Op: "close"}}})
		}) {
			return
		}
		// dictionary and look-ahead sizes around the 64 KiB compressed limit of
		// a chunk (DictCap below it, DictCap+BufSize above it) with stored
		// chunks closed inside Write: what the encoder still holds of a chunk
		// when it decides to store it depends on both
		for i, db := range [][2]int{{61440, 8192}, {49152, 16384}, {32768, 40000}, {61000, 4096}, {64512, 273}, {8192, 70000}, {65000, 2000}, {66000, 273}} {
			if i%rec.Shards != rec.Shard {
				continue
			}
			a := gen.Seg{Kind: "random", Len: 140000, Seed: uint64(300 + i)}
			b := gen.Seg{Kind: "random", Len: 70000, Seed: uint64(400 + i)}
			x := gen.Seg{Kind: "text", K: 4, Len: 5000, Seed: 7}
			rec.Class("dict_and_lookahead_around_chunk_limit")
			if !try(caseC08{Cfg: gen.Cfg{DefProps: true, DictCap: db[0], BufSize: db[1]}, Steps: []stepW2{{Op: "write", Seg: &a}, {Op: "write", Seg: &b}, {Op: "write", Seg: &x}, {Op: "close"}}}) {
				return
			}
		}
	})
	if t.Failed() {
		return
	}
	drive(t, rec, drawC08, checkC08)
}
