package props

import (
	"bytes"
	"encoding/binary"
	"fmt"
	"hash/crc32"
	"io"
	"os"
	"strings"
	"testing"

	"github.com/ulikunitz/xz"
	"pgregory.net/rapid"

	"verif/ev"
	"verif/fault"
	"verif/gen"
	"verif/ref"
)

// caseC12 is a chain of valid xz streams with padding and optional garbage.
type caseC12 struct {
	Srcs   []gen.Src `json:"srcs"`
	Pads   []int     `json:"pads"`  // zero bytes after each stream (any length 0..16)
	Lead   int       `json:"lead"`  // zero bytes before the first stream
	Trail  []byte    `json:"trail"` // bytes after the last padding; first byte non-zero
	Single bool      `json:"single"`
	// Frag: how the source hands out the file (short reads, final bytes
	// delivered together with io.EOF); zero value = all at once
	Frag fault.Frag `json:"frag"`
}

func drawC12(t *rapid.T) caseC12 {
	var c caseC12
	n := rapid.IntRange(1, 5).Draw(t, "nstreams")
	for i := 0; i < n; i++ {
		s := gen.DrawSrc(t, "xz", 600, "lib", "ref", "ref", "liblzma", "corpus")
		cheapDict(&s)
		if s.Origin == "corpus" && (strings.HasPrefix(s.File, "multi") || strings.HasPrefix(s.File, "rand") || strings.HasPrefix(s.File, "mix")) {
			s.File = "short-0-crc32.xz"
		}
		c.Srcs = append(c.Srcs, s)
		pad := 4 * rapid.IntRange(0, 4).Draw(t, "pad4")
		if rapid.IntRange(0, 7).Draw(t, "oddpad") == 0 {
			pad = rapid.IntRange(1, 16).Draw(t, "pad")
		}
		c.Pads = append(c.Pads, pad)
	}
	if rapid.IntRange(0, 9).Draw(t, "lead") == 0 {
		c.Lead = rapid.IntRange(1, 8).Draw(t, "leadlen")
	}
	if rapid.IntRange(0, 7).Draw(t, "trail") == 0 {
		c.Trail = append([]byte{byte(rapid.IntRange(1, 255).Draw(t, "t0"))}, rapid.SliceOfN(rapid.Byte(), 0, 13).Draw(t, "trailrest")...)
	}
	c.Single = rapid.IntRange(0, 3).Draw(t, "single") == 0
	c.Frag.Kind = rapid.SampledFrom([]string{"whole", "whole", "one", "lens"}).Draw(t, "frag")
	if c.Frag.Kind == "lens" {
		c.Frag.Lens = rapid.SliceOfN(rapid.SampledFrom([]int{1, 2, 3, 4, 5, 11, 12, 13, 100, 4096}), 1, 5).Draw(t, "fraglens")
	}
	c.Frag.EOFWith = rapid.Bool().Draw(t, "eofwith")
	// SingleStream with exactly one byte after the stream (a zero or not):
	// the smallest thing that must be reported
	if c.Single && rapid.Bool().Draw(t, "onebyte") {
		c.Srcs, c.Pads, c.Lead = c.Srcs[:1], []int{0}, 0
		if rapid.Bool().Draw(t, "onezero") {
			c.Pads[0], c.Trail = 1, nil
		} else {
			c.Trail = []byte{byte(rapid.IntRange(1, 255).Draw(t, "onet"))}
		}
	}
	return c
}

func checkC12(c caseC12, rec *ev.Rec) *ev.Failure {
	var file []byte
	var contents [][]byte
	file = append(file, make([]byte, c.Lead)...)
	firstEnd := 0
	for i, s := range c.Srcs {
		b, err := s.Build()
		if err != nil {
			rec.Incomplete("stream construction: " + err.Error())
			return nil
		}
		res, err := ref.DecodeXZ(b.Stream)
		if err != nil || !bytes.Equal(res.Out, b.Content) {
			rec.Incomplete(fmt.Sprintf("reference decoder disagrees with a constructed stream: %v", err))
			return nil
		}
		if got, err := decodeAll("xz", b.Stream, 4096); err != nil || !bytes.Equal(got, b.Content) {
			rec.Class("single_stream_not_decoded(other property)")
			return nil
		}
		file = append(file, b.Stream...)
		if i == 0 {
			firstEnd = len(file)
		}
		file = append(file, make([]byte, c.Pads[i])...)
		contents = append(contents, b.Content)
	}
	file = append(file, c.Trail...)
	all := bytes.Join(contents, nil)

	// the model
	wantErr := false
	var want []byte
	switch {
	case c.Lead > 0:
		wantErr = true
	case c.Single:
		want = contents[0]
		wantErr = len(file) > firstEnd
	default:
		want = all
		for _, p := range c.Pads {
			if p%4 != 0 {
				wantErr = true
			}
		}
		if len(c.Trail) > 0 {
			wantErr = true
		}
	}

	if c.Frag.Kind == "" {
		c.Frag.Kind = "whole"
	}
	var src io.Reader = fault.NewFragReader(file, c.Frag)
	if c.Frag.Kind == "osfile" {
		// the source is an *os.File, the type most callers hand over (a
		// reader must not treat it differently from any other source)
		f, ferr := os.CreateTemp(os.Getenv("VERIF_WORKDIR"), "c12-*.xz")
		if ferr != nil {
			rec.Incomplete("cannot create a scratch file: " + ferr.Error())
			return nil
		}
		defer os.Remove(f.Name())
		defer f.Close()
		if _, ferr = f.Write(file); ferr == nil {
			_, ferr = f.Seek(0, io.SeekStart)
		}
		if ferr != nil {
			rec.Incomplete("cannot fill the scratch file: " + ferr.Error())
			return nil
		}
		src = f
	}
	r, err := xz.ReaderConfig{DictCap: 4096, SingleStream: c.Single}.NewReader(src)
	var got []byte
	if err == nil {
		got, err = io.ReadAll(r)
	}
	sig := []string{"single", fmt.Sprint(c.Single), "lead", fmt.Sprint(c.Lead > 0), "trail", fmt.Sprint(len(c.Trail) > 0)}
	if wantErr {
		if err == nil {
			return ev.Fail(fmt.Sprintf("expected an error (lead %d, pads %v, trail %d bytes, single %v, %d streams) but reading ended cleanly with %d bytes", c.Lead, c.Pads, len(c.Trail), c.Single, len(c.Srcs), len(got)),
				append(sig, "result", "no_error")...)
		}
		if c.Single && c.Lead == 0 {
			if !bytes.Equal(got, want) {
				return ev.Fail(fmt.Sprintf("SingleStream: delivered %d bytes, first stream holds %d", len(got), len(want)), append(sig, "result", "wrong_content")...)
			}
		} else if !bytes.HasPrefix(all, got) {
			return ev.Fail("bytes delivered before the error are not a prefix of the concatenation", append(sig, "result", "not_prefix")...)
		}
	} else {
		if err != nil {
			return ev.Fail(fmt.Sprintf("valid chain (pads %v, single %v, %d streams) fails after %d of %d bytes: %v", c.Pads, c.Single, len(c.Srcs), len(got), len(want), err),
				append(sig, "result", "error", "err", err.Error())...)
		}
		if !bytes.Equal(got, want) {
			return ev.Fail(fmt.Sprintf("chain decodes to %d bytes, want %d (first difference at %d)", len(got), len(want), firstDiff(got, want)), append(sig, "result", "wrong_content")...)
		}
	}
	withContent := 0
	for _, ct := range contents {
		if len(ct) > 0 {
			withContent++
		}
	}
	anyPad := false
	for i, p := range c.Pads {
		if p > 0 {
			anyPad = true
		}
		if p%4 != 0 {
			rec.Class("pad_not_multiple_of_4")
		}
		if p > 0 && p%4 == 0 && i < len(c.Pads)-1 {
			rec.Class("valid_padding_between")
		}
		if p > 0 && p%4 == 0 && i == len(c.Pads)-1 {
			rec.Class("valid_trailing_padding")
		}
	}
	rec.Class(fmt.Sprintf("streams=%d", len(c.Srcs)), fmt.Sprintf("single=%v", c.Single), fmt.Sprintf("want_err=%v", wantErr), "source="+c.Frag.Kind, fmt.Sprintf("eof_with_data=%v", c.Frag.EOFWith))
	if c.Single && len(file) == firstEnd+1 {
		rec.Class("single_stream_one_byte_follows")
	}
	if c.Lead > 0 {
		rec.Class("leading_padding")
	}
	if len(c.Trail) > 0 {
		rec.Class("trailing_garbage")
	}
	for _, ct := range contents {
		if len(ct) == 0 {
			rec.Class("empty_stream_member")
			break
		}
	}
	if withContent >= 2 && anyPad {
		rec.NonTrivial(ev.Hash64(file, c.Single))
	}
	rec.Sample(fmt.Sprint(c.Single, wantErr), map[string]any{"streams": len(c.Srcs), "origins": origins(c.Srcs), "pads": c.Pads, "lead": c.Lead, "trail": c.Trail, "single": c.Single, "want_err": wantErr, "file_len": len(file)})
	return nil
}

func origins(s []gen.Src) []string {
	var r []string
	for _, x := range s {
		r = append(r, x.Origin)
	}
	return r
}

func TestC12(t *testing.T) {
	rec := ev.New("C12", "exploration")
	rec.Rule = "enumerated first: two streams separated by 1 MiB, 6 MiB and 6 MiB + 2 bytes of padding; then rapid draws 1-5 valid xz streams (library, reference generator incl. empty and zero-block streams, liblzma, corpus), zero padding 0..16 after each (mostly multiples of 4, 1/8 arbitrary), optional leading padding, optional trailing non-zero garbage, SingleStream on/off; a model predicts (content, error?): all paddings multiples of 4, no lead, no garbage -> concatenation and nil; otherwise an error with a prefix of the concatenation; SingleStream -> exactly the first content, error iff a byte follows; non-trivial = >= 2 members with content and some padding; distinct = hash(file bytes, SingleStream)"
	// trailing bytes that LOOK like the beginning of another stream: a stream
	// header alone, header plus first block header, and the same with the
	// block header damaged (non-zero padding, or shortened below what its
	// fields need) under a correct CRC32 - none of it is padding, all of it
	// must be reported
	enumerate(t, rec, checkC12, func(try func(caseC12) bool) {
		a := gen.Src{Fmt: "xz", Origin: "ref", Seed: 61, NOps: 6, NChunks: 1, NBlocks: 1, Check: 4}
		bsrc := gen.Src{Fmt: "xz", Origin: "ref", Seed: 62, NOps: 6, NChunks: 1, NBlocks: 1, Check: 1, ExtraPad: 1}
		bb, err := bsrc.Build()
		if err != nil {
			rec.Incomplete("stream construction: " + err.Error())
			return
		}
		res, err := ref.DecodeXZ(bb.Stream)
		if err != nil {
			rec.Incomplete("reference decoder: " + err.Error())
			return
		}
		lay := &res.Layout
		szs, crcs, pads := lay.Find("bh_size"), lay.Find("bh_crc"), lay.Find("bh_pad")
		if len(szs) == 0 || len(crcs) == 0 || len(pads) == 0 {
			rec.Incomplete("layout without block header spans")
			return
		}
		hs, hc := szs[0].Off, crcs[0].Off
		reseal := func(h []byte) []byte { return binary.LittleEndian.AppendUint32(h, crc32.ChecksumIEEE(h)) }
		trails := [][]byte{append([]byte{}, bb.Stream[:hs]...), append([]byte{}, bb.Stream[:hc+4]...)}
		padded := append([]byte{}, bb.Stream[hs:hc]...)
		padded[len(padded)-1] = 1
		trails = append(trails, append(append([]byte{}, bb.Stream[:hs]...), reseal(padded)...))
		short := append([]byte{}, bb.Stream[hs:hs+4]...)
		short[0] = 1
		trails = append(trails, append(append([]byte{}, bb.Stream[:hs]...), reseal(short)...))
		i := 0
		for _, tr := range trails {
			for _, tail := range [][]byte{nil, {0, 0, 0, 0}} {
				for _, frag := range []fault.Frag{{Kind: "whole"}, {Kind: "lens", Lens: []int{5, 1, 3}, EOFWith: true}} {
					i++
					if i%rec.Shards != rec.Shard {
						continue
					}
					rec.Class("trail_looks_like_a_stream")
					if !try(caseC12{Srcs: []gen.Src{a}, Pads: []int{0}, Trail: append(append([]byte{}, tr...), tail...), Frag: frag}) {
						return
					}
				}
			}
		}
	})
	if t.Failed() {
		return
	}
	// chains read straight from an *os.File
	enumerate(t, rec, checkC12, func(try func(caseC12) bool) {
		for i := 0; i < 24; i++ {
			if i%rec.Shards != rec.Shard {
				continue
			}
			var srcs []gen.Src
			var pads []int
			for k := 0; k < 2+i%3; k++ {
				srcs = append(srcs, gen.Src{Fmt: "xz", Origin: "ref", Seed: uint64(900 + 10*i + k), NOps: 4 + 40*(i%4), NChunks: 1 + k%2, NBlocks: (i + k) % 3, Check: []byte{1, 4, 10, 0}[(i+k)%4]})
				pads = append(pads, 4*((i+k)%3))
			}
			rec.Class("source_is_os_file")
			if !try(caseC12{Srcs: srcs, Pads: pads, Single: i%6 == 5, Frag: fault.Frag{Kind: "osfile"}}) {
				return
			}
		}
	})
	if t.Failed() {
		return
	}
	// very long stream padding (legal: any multiple of four zero bytes): work
	// per padding word must not pile up (on the stack or elsewhere)
	enumerate(t, rec, checkC12, func(try func(caseC12) bool) {
		for i, pad := range []int{1 << 20, 6 << 20, 6<<20 + 2} {
			if i%rec.Shards != rec.Shard {
				continue
			}
			a := gen.Src{Fmt: "xz", Origin: "ref", Seed: uint64(40 + i), NOps: 5, NChunks: 1, NBlocks: 1, Check: 1}
			b := gen.Src{Fmt: "xz", Origin: "ref", Seed: uint64(50 + i), NOps: 5, NChunks: 1, NBlocks: 1, Check: 4}
			rec.Class("very_long_padding")
			if !try(caseC12{Srcs: []gen.Src{a, b}, Pads: []int{pad, 8}, Frag: fault.Frag{Kind: "whole"}}) {
				return
			}
		}
	})
	if t.Failed() {
		return
	}
	drive(t, rec, drawC12, checkC12)
}
