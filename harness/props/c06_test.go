package props

import (
	"bytes"
	"encoding/binary"
	"fmt"
	"io"
	"testing"

	"github.com/ulikunitz/xz/lzma"
	"pgregory.net/rapid"

	"verif/ev"
	"verif/fault"
	"verif/gen"
	"verif/liblz"
	"verif/ref"
)

// caseC06 is a write history for the classic LZMA writer.
type caseC06 struct {
	Cfg      gen.Cfg       `json:"cfg"`
	Data     gen.Recipe    `json:"data"`
	Part     gen.Partition `json:"part"`
	Mode     string        `json:"mode"`  // marker | size | size+marker | short | surplus
	Delta    int           `json:"delta"` // for short / surplus
	ByteSink bool          `json:"bytesink"`
	Via      string        `json:"via,omitempty"` // see viaWrite
}

func drawC06(t *rapid.T) caseC06 {
	var c caseC06
	gen.DrawProps(t, &c.Cfg, false)
	gen.DrawCoder(t, &c.Cfg)
	classes := []string{"zero", "tiny", "tiny", "small", "small", "small", "medium", "k64"}
	if ev.Thorough() {
		classes = append(classes, "k128", "m1")
	}
	c.Data = gen.DrawRecipe(t, 4, 4<<20, classes...)
	if c.Cfg.EffDict() <= 1<<20 && rapid.IntRange(0, 14).Draw(t, "edge") == 0 {
		c.Data = gen.EdgeRecipe(t, c.Cfg.EffDict())
	}
	if c.Cfg.Matcher == 1 {
		c.Data = clampForBT(c.Data, 12000)
	}
	n := c.Data.Len()
	c.Part = gen.DrawPartition(t, n, 4096, 65536)
	c.Mode = rapid.SampledFrom([]string{"marker", "marker", "size", "size", "size+marker", "short", "surplus"}).Draw(t, "mode")
	if c.Mode == "surplus" && n == 0 {
		c.Mode = "size"
	}
	c.ByteSink = rapid.Bool().Draw(t, "bytesink")
	switch c.Mode {
	case "size":
		c.Cfg.SizeInHeader, c.Cfg.Size = true, int64(n)
	case "size+marker":
		c.Cfg.SizeInHeader, c.Cfg.Size, c.Cfg.EOSMarker = true, int64(n), true
	case "short":
		c.Delta = rapid.IntRange(1, 1000).Draw(t, "delta")
		c.Cfg.SizeInHeader, c.Cfg.Size = true, int64(n+c.Delta)
		c.Cfg.EOSMarker = rapid.Bool().Draw(t, "eos")
	case "surplus":
		c.Delta = rapid.IntRange(1, n).Draw(t, "delta")
		c.Cfg.SizeInHeader, c.Cfg.Size = true, int64(n-c.Delta)
		c.Cfg.EOSMarker = rapid.Bool().Draw(t, "eos")
	}
	c.Via = rapid.SampledFrom(viaKinds).Draw(t, "via")
	if rapid.IntRange(0, 11).Draw(t, "oddcfg") == 0 {
		gen.DrawOdd(t, &c.Cfg, "lzma")
	}
	return c
}

type plainSink struct{ bytes.Buffer }

// hide WriteByte so that the writer takes the bufio path
type noByteSink struct{ w *bytes.Buffer }

func (s noByteSink) Write(p []byte) (int, error) { return s.w.Write(p) }

type lzmaRun struct {
	data     []byte
	out      []byte
	accepted int
	closeErr error
}

// runLZMAWrite executes the history and checks the call-level contract.
func runLZMAWrite(c caseC06) (*lzmaRun, *ev.Failure) {
	cfg := c.Cfg.W1()
	if err := cfg.Verify(); err != nil {
		if c.Cfg.Odd != "" {
			return nil, rejectedCfg
		}
		panic("generator produced a configuration Verify rejects: " + err.Error())
	}
	m := matcherName(c.Cfg.Matcher)
	data := c.Data.Expand()
	var buf bytes.Buffer
	var sink io.Writer = &buf
	if !c.ByteSink {
		sink = noByteSink{&buf}
	}
	if len(data)%4 == 1 {
		// an earlier writer of the same configuration, closed or abandoned
		priorWrite(func(s io.Writer) (io.WriteCloser, error) { return c.Cfg.W1().NewWriter(s) }, 1+len(data)%9000)
	}
	w, err := c.Cfg.W1().NewWriter(sink)
	if err != nil && c.Cfg.Odd != "" {
		return nil, rejectedCfg
	}
	if err != nil {
		return nil, ev.Fail("NewWriter: "+err.Error(), "stage", "newwriter", "matcher", m)
	}
	run := &lzmaRun{data: data}
	limit := int64(-1)
	if c.Cfg.SizeInHeader || c.Cfg.Size > 0 {
		limit = c.Cfg.Size
	}
	pos := 0
	for i, l := range c.Part.Split(len(data)) {
		n, err := viaWrite(w, data[pos:pos+l], c.Via)
		wantN := l
		wantErr := false
		if limit >= 0 && int64(run.accepted+l) > limit {
			wantN = int(limit) - run.accepted
			wantErr = true
		}
		if n != wantN || (err != nil) != wantErr {
			return nil, ev.Fail(fmt.Sprintf("Write #%d of %d bytes (accepted so far %d, size limit %d) returned (%d, %v); want (%d, error=%v)", i, l, run.accepted, limit, n, err, wantN, wantErr),
				"stage", "write", "matcher", m, "mode", c.Mode, "err", fmt.Sprint(err))
		}
		run.accepted += n
		pos += l
	}
	run.closeErr = w.Close()
	run.out = buf.Bytes()
	switch c.Mode {
	case "short":
		if run.closeErr == nil {
			return nil, ev.Fail(fmt.Sprintf("Close returned nil although only %d of the %d declared bytes were written", run.accepted, limit), "stage", "close", "mode", c.Mode, "result", "nil")
		}
	default:
		if run.closeErr != nil {
			return nil, ev.Fail("Close: "+run.closeErr.Error(), "stage", "close", "matcher", m, "mode", c.Mode, "err", run.closeErr.Error())
		}
	}
	return run, nil
}

func checkC06(c caseC06, rec *ev.Rec) *ev.Failure {
	run, f := runLZMAWrite(c)
	if oddOutcome(c.Cfg, f, rec) {
		return nil
	}
	if f != nil {
		return f
	}
	m := matcherName(c.Cfg.Matcher)
	lc, lp, _ := c.Cfg.EffProps()
	rec.Class("mode="+c.Mode, "matcher="+m, "partition="+c.Part.Kind, fmt.Sprintf("bytesink=%v", c.ByteSink), "write_via="+c.Via,
		"lzma.Writer_optional_interfaces="+optionalIfaces((*lzma.Writer)(nil)))
	if lc+lp > 4 {
		rec.Class("lc+lp>4")
	}
	if run.accepted == 0 {
		rec.Class("n=0")
	}
	if c.Mode == "short" {
		rec.NonTrivial(caseHash(c))
		return nil
	}
	want := run.data[:run.accepted]
	// header must not misstate the content length
	if len(run.out) < 13 {
		return ev.Fail("output shorter than a header", "stage", "header")
	}
	sz := binary.LittleEndian.Uint64(run.out[5:13])
	if sz != 1<<64-1 && sz != uint64(run.accepted) {
		return ev.Fail(fmt.Sprintf("header states size %d, %d bytes were accepted", sz, run.accepted), "stage", "header", "result", "misstated")
	}
	for _, dc := range []int{4096, 0} {
		if dc == 0 && len(want) > 4096 && c.Cfg.EffDict() <= 1<<20 {
			// default reader (8 MiB window) adds nothing for small dictionaries
			continue
		}
		r, err := lzma.ReaderConfig{DictCap: dc}.NewReader(bytes.NewReader(run.out))
		if err != nil {
			return ev.Fail(fmt.Sprintf("NewReader on writer output (mode %s, %d bytes accepted): %v", c.Mode, run.accepted, err), "stage", "read", "mode", c.Mode, "matcher", m, "err", err.Error(), "n0", fmt.Sprint(run.accepted == 0))
		}
		got, err := io.ReadAll(r)
		if err != nil {
			return ev.Fail(fmt.Sprintf("reading writer output (mode %s) fails after %d of %d bytes: %v", c.Mode, len(got), len(want), err),
				"stage", "read", "mode", c.Mode, "matcher", m, "err", err.Error(), "n0", fmt.Sprint(run.accepted == 0))
		}
		if !bytes.Equal(got, want) {
			return ev.Fail(fmt.Sprintf("round trip differs: got %d bytes, want %d, first difference at %d", len(got), len(want), firstDiff(got, want)), "stage", "compare", "matcher", m)
		}
		var one [1]byte
		if n, err := r.Read(one[:]); n != 0 || err != io.EOF {
			return ev.Fail(fmt.Sprintf("Read after end returned (%d, %v)", n, err), "stage", "eof", "matcher", m)
		}
	}
	if run.accepted >= 1 && (lc+lp > 4 || c.Mode != "marker" || c.Cfg.Matcher == 1 || len(c.Part.Split(len(run.data))) > 1) {
		rec.NonTrivial(caseHash(c))
	}
	rec.Sample(c.Mode+m, map[string]any{"cfg": c.Cfg, "data": c.Data.String(), "mode": c.Mode, "delta": c.Delta, "bytesink": c.ByteSink, "out_len": len(run.out)})
	return nil
}

func TestC06(t *testing.T) {
	rec := ev.New("C06", "exploration")
	rec.Rule = "rapid draws (lzma.WriterConfig passing Verify: lc 0-8, lp 0-4, pb 0-4, DictCap, BufSize, matcher; termination marker / Size=len / Size=len+marker; contract cases Size=len+d and Size=len-d), data recipe incl. empty, partition, sink with or without WriteByte; oracle: round trip through lzma.Reader with clean EOF, a model of the size contract says which Write returns (remaining, error) and that Close fails when fewer bytes were written; whenever Close returns nil the header's size field equals the bytes accepted; non-trivial = n >= 1 and (lc+lp > 4 or non-default termination or BinaryTree or multi-write); distinct = hash of the case"
	rec.Assumptions = []string{"BinaryTree: run-like segments <= 12000 bytes"}
	// volume: events of the range coder that need a particular state of its
	// 33-bit accumulator (a carry into a pending 0xFF byte, ...) occur once in
	// 2^28 .. 2^30 output bytes. The classic format has no stored chunks, so
	// incompressible input turns into as many coded bytes: every shard writes
	// and reads back one long pseudo-random input (the seed varies with shard
	// and VERIF_SEED). A matter of probability in the quick tier (8 x 24 MiB),
	// likely in the thorough tier (14 x 256 MiB).
	enumerate(t, rec, checkC06, func(try func(caseC06) bool) {
		n := 24 << 20
		if ev.Thorough() {
			n = 256 << 20
		}
		c := caseC06{Cfg: gen.Cfg{DefProps: true, DictCap: 65536, EOSMarker: true}, Mode: "marker", ByteSink: true, Part: gen.Partition{Kind: "cuts", Lens: []int{1 << 20, 3 << 20}},
			Data: gen.Recipe{{Kind: "random", Len: n, Seed: 7700 + uint64(rec.Shard) + 1000*uint64(rec.Seed)}}}
		rec.Class("volume_case")
		try(c)
	})
	if t.Failed() {
		return
	}
	drive(t, rec, drawC06, checkC06)
}

// checkC07w is the writer half of C07: library output judged by the
// reference decoder and liblzma, header fields compared with the
// configuration.
func checkC07w(c caseC06, rec *ev.Rec) *ev.Failure {
	if c.Mode == "short" {
		return nil
	}
	run, f := runLZMAWrite(c)
	if oddOutcome(c.Cfg, f, rec) {
		return nil
	}
	if f != nil {
		rec.Class("write_failed(C06)")
		return nil
	}
	want := run.data[:run.accepted]
	m := matcherName(c.Cfg.Matcher)
	res, err := ref.DecodeLZMA(run.out)
	if err != nil {
		return ev.Fail(fmt.Sprintf("reference decoder rejects the emitted stream (mode %s, %d bytes): %v", c.Mode, len(want), err), "side", "writer", "stage", "ref", "mode", c.Mode, "matcher", m, "err", err.Error(), "n0", fmt.Sprint(len(want) == 0))
	}
	if !bytes.Equal(res.Out, want) {
		return ev.Fail("reference decoder recovers different bytes", "side", "writer", "stage", "ref_compare", "matcher", m)
	}
	lc, lp, pb := c.Cfg.EffProps()
	if res.Props != (ref.Props{LC: lc, LP: lp, PB: pb}) {
		return ev.Fail(fmt.Sprintf("header properties %+v, configured %d/%d/%d", res.Props, lc, lp, pb), "side", "writer", "stage", "header", "what", "props")
	}
	ds := int64(res.DictSize)
	if ds < 4096 {
		ds = 4096
	}
	if res.Stats.MaxDist > ds {
		return ev.Fail(fmt.Sprintf("match distance %d exceeds the header dictionary size %d", res.Stats.MaxDist, res.DictSize), "side", "writer", "stage", "header", "what", "dict")
	}
	sizeInHeader := c.Cfg.SizeInHeader || c.Cfg.Size > 0
	marker := c.Cfg.EOSMarker || !sizeInHeader
	if sizeInHeader && res.SizeField != int64(run.accepted) {
		return ev.Fail(fmt.Sprintf("explicit size configured (%d) but header states %d", c.Cfg.Size, res.SizeField), "side", "writer", "stage", "header", "what", "size", "n0", fmt.Sprint(run.accepted == 0))
	}
	if !sizeInHeader && res.SizeField != -1 {
		return ev.Fail("size written although not configured", "side", "writer", "stage", "header", "what", "size_unwanted")
	}
	if res.Marker != marker {
		return ev.Fail(fmt.Sprintf("end marker present=%v, configured=%v", res.Marker, marker), "side", "writer", "stage", "header", "what", "marker")
	}
	if liblz.Available && lc+lp <= 4 && validAloneDict(res.DictSize) {
		got, err := liblz.DecodeAlone(run.out)
		if err != nil || !bytes.Equal(got, want) {
			return ev.Fail(fmt.Sprintf("liblzma does not recover the input from the emitted stream: %v", err), "side", "writer", "stage", "liblzma", "matcher", m)
		}
		rec.Class("judged_by_liblzma")
	}
	rec.Class("side=writer", "mode="+c.Mode, "matcher="+m)
	if len(want) > 0 && res.Stats.Matches > 0 {
		rec.NonTrivial(caseHash(c))
	}
	rec.Sample("w"+c.Mode, map[string]any{"side": "writer", "cfg": c.Cfg, "data": c.Data.String(), "mode": c.Mode, "out_len": len(run.out), "max_dist": res.Stats.MaxDist})
	return nil
}

func validAloneDict(d uint32) bool {
	if d == 0xFFFFFFFF {
		return true
	}
	for n := uint(12); n < 32; n++ {
		if d == 1<<n || d == 1<<n+1<<(n-1) {
			return true
		}
	}
	return false
}

var _ = fault.ErrInjected
