#!/usr/bin/env python3
"""Regenerates MANIFEST.json from the table below (keeps it consistent with ./check)."""
import json, os

ROOT = os.path.dirname(os.path.abspath(__file__))

# id -> (category, technique, level text, level note, design ref)
CHECKS = {
 "C01": ("exploration", "property-based testing (rapid): generated data recipes x writer configurations x Write partitions x call tails; round-trip oracle plus history model",
         "Random/structured generation with shrinking over inputs, configurations and call histories; each case is written with the library, read back with two reader configurations and compared byte for byte; calls after Close must fail and emit nothing. Deterministic enumerations precede the random cases: single writes and write sequences that land exactly on, just below and just above both LZMA2 chunk limits (limit scan through the xz writer), many-block streams; a share of the cases follows an earlier writer instance of the same configuration that was closed or abandoned. Held on every generated case; no claim beyond the generated space.",
         "trusts Go's bytes.Equal and the data recipe expander; BinaryTree inputs are bounded by a work budget, DictCap by memory", "DESIGN.md#c01"),
 "C02": ("exploration", "property-based testing (rapid) with differential oracle: independent reference decoder + liblzma judge every emitted stream; validity predicates over the parsed layout",
         "Every stream the C01 generator makes the writer emit is parsed by an independent strict .xz/LZMA2/LZMA implementation and by liblzma; header/footer/index/padding/check/dictionary-size/chunk-limit/block-size predicates are evaluated on the parsed layout.",
         "trusts the reference implementation (cross-validated against liblzma and xz-utils in setup) and liblzma 5.4.1", "DESIGN.md#c02"),
 "C03": ("exploration", "property-based testing (rapid): specification-driven generator of operation lists, chunk layouts and container layouts, liblzma-encoded streams and a frozen xz-utils corpus; construction/differential oracle; thorough tier adds native coverage-guided fuzzing over a decision tape that owns every choice of the stream generator (same oracle), and every tier replays the saved fuzz corpus",
         "Streams whose plaintext is known by construction (operation lists applied to the generator's own history) or from a foreign encoder are decoded by the library under several ReaderConfig.DictCap values; result must equal the constructed bytes. Every block header length 12..1024 and dictionaries that grow from block to block are enumerated; readers are also drained through io.Copy / ReadByte and read from fragmenting sources. Generated streams include per-block differing layouts, size fields fitted to their boundaries and end-marker variants; a third of the cases follows an earlier reader instance of the same configuration that failed on a truncated or changed copy or was abandoned.",
         "trusts the reference encoder (validated against liblzma / xz-utils decoders); declared dictionaries bounded at 64 MiB", "DESIGN.md#c03"),
 "C04": ("fault_enumeration", "fault enumeration driven by rapid: per generated stream every single-bit flip, every byte insertion/deletion, drawn bursts, and structural field edits with re-sealed CRC32; oracle = never clean EOF with different content / listed inconsistencies must error",
         "Exhaustive single-fault enumeration per generated stream (bit flips, insert/delete at every offset) plus a structural mutator that re-seals header CRCs so only the targeted cross-check can object: all 256 values of every stream-flag and block-flag byte, each bit of the backward size, swapped/shifted index records, lengthened headers, and generator-built streams that carry one CRC-valid wrong metadata value (sizes, counts, records, backward size) in either direction, or whose index consistently lists fewer or more records than there are blocks; block headers shortened below what their fields need; multi-byte filter ids.",
         "CRC32/CRC64 collisions on payload flips (2^-32) ignored; trusts the reference parser's layout", "DESIGN.md#c04"),
 "C05": ("fault_enumeration", "fault enumeration driven by rapid: every cut position of generated .xz / LZMA2 / .lzma streams; oracle = error other than EOF and delivered bytes are a prefix; thorough tier adds native coverage-guided fuzzing over a decision tape that owns every choice of the stream generator (same oracle), and every tier replays the saved fuzz corpus",
         "Every proper prefix (exhaustive per stream; boundary-focused for large streams) of library-, reference- and liblzma-written streams is decoded; a clean end of stream or non-prefix output is a violation.",
         "multi-stream cuts at stream / 4-byte padding boundaries are expected to decode cleanly", "DESIGN.md#c05"),
 "C06": ("exploration", "property-based testing (rapid): classic LZMA writer configurations x data x partitions; round-trip oracle and explicit-size contract model",
         "Generated configurations over all 225 property codes, termination modes, sinks with and without WriteByte; round trip through the library reader; a model of the size contract predicts which Write/Close calls must fail. Out-of-range configurations are proposed and whatever the library accepts is judged; pieces are also handed over through io.Copy / io.WriteString / WriteByte; every shard writes and reads back one long pseudo-random input (24 MiB quick, 256 MiB thorough) for range-coder states that only volume reaches.",
         "BinaryTree inputs bounded by a work budget", "DESIGN.md#c06"),
 "C07": ("exploration", "property-based testing (rapid), differential both ways: library output judged by the reference decoder and liblzma; reference-generated and liblzma-encoded streams decoded by the library; thorough tier adds native coverage-guided fuzzing over a decision tape that owns every choice of the stream generator (same oracle), and every tier replays the saved fuzz corpus",
         "Writer side: header fields and stream judged by independent decoders. Reader side: arbitrary legal operation lists in all termination modes and any lc/lp/pb, plus liblzma encodings. One long match-rich input per shard is written by the library and judged by the reference decoder and liblzma (deviations shared by encoder and decoder show only there, and only with volume).",
         "lc+lp>4 streams are judged by the reference implementation only (liblzma refuses them)", "DESIGN.md#c07"),
 "C08": ("exploration", "stateful property-based testing (rapid state machine) over Write/Flush/Close histories with a model of accepted bytes; prefix-decodability oracle via reference decoder, Reader2 and liblzma",
         "Generated call histories; after every Flush the emitted prefix must decode to the model; after Close the whole output must; later calls must fail and emit nothing. A deterministic limit scan (far matches, rep matches, near matches, literals) measures the chunk limits with the library and walks the write size across them byte by byte; templates cover exactly k*2 MiB followed by Flush, mixed and edge recipes.",
         "histories bounded in length and volume", "DESIGN.md#c08"),
 "C09": ("fault_enumeration", "fault injection enumerated over every sink write index and every source offset of generated scenarios (fail once / forever, with / without partial write)",
         "For each generated scenario a clean run counts the sink writes; every index is then failed in four modes and the whole call history replayed under recover; symmetric enumeration of failing source offsets for the three readers (incl. SingleStream and multi-stream inputs, errors delivered with data); sinks fail with no, half or all bytes of the call taken; histories with more than 2 MiB pending; rep-cycling data for byte-wise sinks.",
         "only io.Writer-contract-abiding fault writers", "DESIGN.md#c09"),
 "C10": ("fault_enumeration", "crash-point and syscall-fault enumeration of the real gxz binary under a ptrace tracer, scenarios drawn by rapid; oracle = data-preservation invariants on the directory",
         "The unmodified gxz binary is run under a purpose-built ptrace runner; every file-system system call is a kill point, a fault point and a SIGINT delivery point; the directory is inspected afterwards, and any unlink/rename of a path outside the scenario directory is blocked and reported.",
         "single system calls atomic; no power-loss model", "DESIGN.md#c10"),
 "C11": ("exploration", "structure-aware mutation fuzzing with rapid (re-sealed CRCs) and native coverage-guided fuzzing (thorough); oracle = no panic, n <= len(p), progress",
         "Hostile inputs derived from valid streams by stacked mutations with CRC re-sealing, random strings with valid magic; generator-built streams with CRC-valid absurd metadata (sizes near 2^63, counts, records); every call runs under a stall watchdog; thorough adds go test -fuzz campaigns.",
         "declared dictionaries above 64 MiB excluded by construction; watchdog firing is inconclusive unless reproduced", "DESIGN.md#c11"),
 "C12": ("exploration", "property-based testing (rapid): generated lists of valid streams with paddings / garbage; model oracle for concatenation and SingleStream",
         "A small model predicts the outcome for every arrangement of streams, padding lengths 0..16, leading padding, trailing bytes and SingleStream; sources fragment their data and deliver the last bytes with io.EOF; enumerated: exactly one byte after a single stream, trailing bytes that look like the beginning of a stream, chains read from an *os.File, and streams 1 MiB / 6 MiB apart (the test processes cap the stack at 64 MiB, and a fatal runtime error inside the library is reported as a violation).",
         "streams come from the library, the reference encoder, liblzma and the frozen corpus", "DESIGN.md#c12"),
 "C13": ("exploration", "property-based testing (rapid) over read-size schedules and source fragmentations; metamorphic oracle (result independent of schedule) plus sticky-EOF invariant; thorough tier adds native coverage-guided fuzzing over a decision tape that owns every choice of the stream generator (same oracle), and every tier replays the saved fuzz corpus",
         "Generated schedules of Read lengths including 0 and 1 and fragmenting sources over multi-block / multi-chunk / multi-stream inputs of all three formats.",
         "sources returning (0,nil) are not generated", "DESIGN.md#c13"),
 "C14": ("exploration", "randomised concurrent schedules under the Go race detector with drawn GOMAXPROCS and yield points; differential oracle against the sequential run; determinism check",
         "2-8 concurrent jobs per case over distinct instances sharing only read-only inputs; race detector reports and any difference from the sequential result are violations; jobs cover the whole lc/lp/pb space of the classic format; per-case output digests of two separate processes are compared (determinism across runs); a quarter of the reader jobs fail on purpose; between the two compressions of a job the caller changes the properties of its own verified configuration.",
         "interleavings are sampled by the scheduler, not enumerated", "DESIGN.md#c14"),
 "C15": ("exploration", "model-based property testing (rapid) of the gxz command line: generated directories and argument vectors; executable model of the documented semantics; interoperability with xz-utils",
         "Generated invocations of the real binary compared with a model derived from the usage text and the property statement; content relations checked with reference decoder and xz-utils. Standard output is a pipe, a regular file or /dev/null; members include multi-stream files and foreign large-dictionary files; the operand - and invocations without operand are fed with a member's bytes on standard input; symbolic links to members; 255..512 failing operands (exit status is one byte); xz-utils members with 3*2^k dictionaries and multi-threaded output; targets that exist as links leading back to the operand; input modes without read/write bits.",
         "suffix/content disagreements assert only safety invariants", "DESIGN.md#c15"),
 "C16": ("exploration", "exhaustive enumeration of chunk-kind sequences up to a bound and of all 256 control bytes, each realised as a concrete stream; oracle = independent chunk-state automaton and constructed plaintext; writer outputs parsed for limits; thorough tier adds native coverage-guided fuzzing over a decision tape that owns every choice of the stream generator (same oracle), and every tier replays the saved fuzz corpus",
         "All sequences over the seven chunk kinds up to length L (quick 5, thorough 7) with and without end chunk; the reader must accept exactly the legal ones and fail at the offending chunk. Generator-built legal streams with chunk size fields fitted to every boundary (1, 2, 255..257, 65535..65537, 2^20, 2^21) are decoded after an earlier Reader2 of the same capacity failed or was abandoned; writer outputs over the raw/compressed decision band are parsed for legality and limits.",
         "LZMA chunks carry 1-3 bytes each", "DESIGN.md#c16"),
 "C17": ("exploration", "property-based testing (rapid) of the size inequalities over runs, X||X and random data across configurations and both match finders",
         "Generated members of the three input families; the output length is compared with the bound of the statement including its additive allowance; half the cases hand the input over in Write calls of 1..100000 bytes.",
         "BinaryTree run lengths bounded by the work budget", "DESIGN.md#c17"),
 "C18": ("exploration", "exhaustive enumeration of all 2^32-1 capacities and all 256 code bytes against an independently written table; emitted block headers parsed by the reference parser",
         "Complete enumeration of both finite domains in every run (exhaustive: true), plus emitted headers at all interval edges up to the memory bound and reader-side acceptance of each code byte.",
         "reader-side codes 29..40 not opened (would allocate >= 1 GiB)", "DESIGN.md#c18"),
}

CLAIMED = [l.strip() for l in open(os.path.join(ROOT, "claimed.txt")) if l.strip() and not l.startswith("#")]

props = [json.loads(l)["id"] for l in open(os.path.join(ROOT, "properties.jsonl"))]
checks = []
for pid in props:
    if pid not in CLAIMED:
        continue
    cat, tech, text, note, ref = CHECKS[pid]
    checks.append({
        "property_id": pid,
        "quick_cmd": "./check %s --tier quick" % pid,
        "thorough_cmd": "./check %s --tier thorough" % pid,
        "evidence_file": "/verif/evidence/%s.json" % pid,
        "replay_cmd_template": "./check %s --replay {path}" % pid,
        "engine": "harness",
        "level_claimed": {"category": cat, "text": text, "design_ref": ref},
        "level_note": note,
        "technique": tech,
    })
na = [{"property_id": p, "reason": "check not built yet in this session (planned: see DESIGN.md section 4); not a limit of the technique"}
      for p in props if p not in CLAIMED]
hooks = json.load(open(os.path.join(ROOT, "hooks.json")))
m = {
    "version": 1,
    "setup_cmd": "./setup.sh",
    "hooks": hooks,
    "engines": [{"name": "harness", "path": "/verif/harness", "serves_properties": CLAIMED,
                 "kind_free_text": "Go test binary (pgregory.net/rapid v1.3.0 generators, exhaustive enumerators, fault injectors, ptrace runner) with an independent reference implementation of the formats and a cgo binding to liblzma as oracles; driven by ./check"}],
    "checks": checks,
    "notes": "All checks build the harness against /repo's working tree (replace directive) on every run. VERIF_SEED selects the rapid seed (0/unset -> 1). Exit 2 = inconclusive (build failure, dead shard, budget).",
    "not_applicable": na,
}
json.dump(m, open(os.path.join(ROOT, "MANIFEST.json"), "w"), indent=1)
print("MANIFEST.json: %d checks, %d not claimed" % (len(checks), len(na)))
