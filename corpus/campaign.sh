#!/bin/sh
# corpus/campaign.sh [fuzztime] [parallel] : one coverage-guided campaign per target; the engine keeps
# the interesting inputs in $GOCACHE/fuzz; corpus/harvest_fuzz.py copies them into testdata/fuzz afterwards.
T=${1:-240s}; P=${2:-8}
cd "$(dirname "$0")/../harness"
export GOFLAGS=-mod=mod GOPROXY=off GOSUMDB=off GOTOOLCHAIN=local CGO_ENABLED=1 VERIF_ROOT=$(cd .. && pwd)
for t in FuzzC03 FuzzC05 FuzzC07 FuzzC13 FuzzC16; do
  echo "== $t"; go test -tags verif,liblzma -run '^$' -fuzz "^$t\$" -fuzztime $T -parallel $P ./props 2>&1 | tail -3
done
for t in FuzzXZ FuzzLZMA FuzzLZMA2; do
  echo "== $t"; go test -tags verif -run '^$' -fuzz "^$t\$" -fuzztime $T -parallel $P ./fuzz 2>&1 | tail -3
done
