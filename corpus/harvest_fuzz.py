#!/usr/bin/env python3
"""Copies the interesting inputs the Go fuzzing engine cached during campaigns
($GOCACHE/fuzz/verif/<pkg>/<target>/) into harness/<pkg>/testdata/fuzz/<target>/,
where the engine loads them as seed corpus and the quick tier replays them.
Keeps inputs up to 8 KiB, at most MAX per target (smallest first)."""
import os, shutil, subprocess, sys
MAX = int(sys.argv[1]) if len(sys.argv) > 1 else 400
root = os.path.dirname(os.path.dirname(os.path.abspath(__file__)))
cache = subprocess.run(["go", "env", "GOCACHE"], capture_output=True, text=True).stdout.strip()
for pkg in ("props", "fuzz"):
    base = os.path.join(cache, "fuzz", "verif", pkg)
    if not os.path.isdir(base):
        continue
    for target in sorted(os.listdir(base)):
        src = os.path.join(base, target)
        files = [(os.path.getsize(os.path.join(src, f)), f) for f in os.listdir(src)]
        files = sorted(x for x in files if x[0] <= 8192)[:MAX]
        dst = os.path.join(root, "harness", pkg, "testdata", "fuzz", target)
        os.makedirs(dst, exist_ok=True)
        for _, f in files:
            shutil.copy(os.path.join(src, f), os.path.join(dst, f))
        print(target, len(files), "of", len(os.listdir(src)), "kept;", sum(s for s, _ in files), "bytes")
