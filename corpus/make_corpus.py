#!/usr/bin/env python3
"""Regenerates the frozen corpus with the installed xz-utils (documented for
provenance; the committed files are what the checks use)."""
import random, subprocess, os
random.seed(20260928)
words = [bytes(random.choice(b"abcdefghijklmnopqrstuvwxyz") for _ in range(random.randint(2, 9))) for _ in range(300)]
def text(n):
    out = bytearray()
    while len(out) < n:
        out += random.choice(words) + random.choice([b" ", b" ", b", ", b".\n"])
    return bytes(out[:n])
inputs = {
    "empty": b"",
    "short": b"The quick brown fox jumps over the lazy dog.\n",
    "text20k": text(20000),
    "mix30k": text(8000) + bytes(random.getrandbits(8) for _ in range(9000)) + b"\0" * 5000 + text(8000),
    "zeros70k": b"\0" * 70000,
    "rand70k": bytes(random.getrandbits(8) for _ in range(70000)),
}
for k, v in inputs.items():
    open(k + ".bin", "wb").write(v)
def xz(name, inp, *args):
    out = subprocess.run(["xz", "-c", "-T1"] + list(args) + [inp + ".bin"], capture_output=True, check=True).stdout
    open(name, "wb").write(out)
    return out
xz("empty-6.xz", "empty", "-6")
xz("short-0-crc32.xz", "short", "-0", "--check=crc32")
xz("short-6-none.xz", "short", "-6", "--check=none")
xz("text-0.xz", "text20k", "-0")
xz("text-6-sha256.xz", "text20k", "-6", "--check=sha256")
xz("text-9e-crc64.xz", "text20k", "-9e", "--check=crc64")
xz("text-blocks.xz", "text20k", "-3", "--block-size=4096")
xz("text-T2.xz", "text20k", "-T2", "--block-size=8192")
xz("mix-custom1.xz", "mix30k", "--lzma2=lc=0,lp=2,pb=1,dict=4KiB,mf=hc3,mode=fast,nice=8")
xz("mix-custom2.xz", "mix30k", "--lzma2=lc=4,lp=0,pb=4,dict=64KiB,mf=bt2,mode=normal,nice=273", "--check=crc32")
xz("mix-custom3.xz", "mix30k", "--lzma2=lc=1,lp=3,pb=0,dict=8KiB,mf=bt4,mode=normal,nice=32,depth=4", "--check=sha256")
xz("zeros-6.xz", "zeros70k", "-6")
xz("rand-6.xz", "rand70k", "-6", "--check=crc32")
xz("rand-T2.xz", "rand70k", "-T2", "--block-size=20000")
a = xz("multi-a.xz", "short", "-1"); b = xz("multi-b.xz", "text20k", "-1", "--check=sha256")
open("multi-pad.xz", "wb").write(a + b"\0" * 8 + b + b"\0" * 4)
os.remove("multi-a.xz"); os.remove("multi-b.xz")
def lz(name, inp, *args):
    out = subprocess.run(["xz", "-c", "--format=lzma"] + list(args) + [inp + ".bin"], capture_output=True, check=True).stdout
    open(name, "wb").write(out)
lz("empty.lzma", "empty")
lz("short-0.lzma", "short", "-0")
lz("text-6.lzma", "text20k", "-6")
lz("text-9e.lzma", "text20k", "-9e")
lz("mix-custom1.lzma", "mix30k", "--lzma1=lc=0,lp=4,pb=0,dict=4KiB,mf=hc4,mode=fast,nice=16")
lz("mix-custom2.lzma", "mix30k", "--lzma1=lc=4,lp=0,pb=3,dict=1MiB,mf=bt3,mode=normal,nice=273")
lz("zeros.lzma", "zeros70k")
lz("rand.lzma", "rand70k", "-1")
for k in inputs:
    os.remove(k + ".bin")
