#!/bin/sh
# Offline setup: warm the Go build cache, cross-validate the reference
# implementation against liblzma / xz-utils (when installed) and the library.
set -e
cd "$(dirname "$0")/harness"
export GOFLAGS=-mod=mod GOPROXY=off GOSUMDB=off GOTOOLCHAIN=local CGO_ENABLED=1
TAGS=verif
if [ -f /usr/include/lzma.h ] && command -v gcc >/dev/null 2>&1; then TAGS=verif,liblzma; fi
mkdir -p bin ../evidence ../replays
go build -tags "$TAGS" ./...
go test -tags "$TAGS" -count=1 -timeout 600s ./ref ./liblz
go test -c -tags "$TAGS" -o bin/warm.test ./props && rm -f bin/warm.test
echo "setup ok (tags: $TAGS)"
